// Case text format shared by generators, engines, ddmin and replay files.
//
// A case is a sequence of lines `name arg ... key=value ...`.  Byte strings
// (keys, values) are tokens: atoms joined by '+':
//   x<hex>          literal bytes (x alone = empty string)
//   t<text>         literal text, chars [A-Za-z0-9_-]
//   r<seed>.<len>   len pseudo-random (incompressible) bytes from seed
//   c<seed>.<len>   len compressible bytes derived from seed
//   z<hh>.<len>     len copies of byte hh
#ifndef VF_CASE_H
#define VF_CASE_H

#include <stdint.h>
#include <stdio.h>
#include <stdlib.h>
#include <string.h>

#include <map>
#include <sstream>
#include <string>
#include <vector>

namespace vf {

inline int hexval(char c) {
  if (c >= '0' && c <= '9') return c - '0';
  if (c >= 'a' && c <= 'f') return c - 'a' + 10;
  if (c >= 'A' && c <= 'F') return c - 'A' + 10;
  return -1;
}

inline std::string to_hex(const std::string &s) {
  static const char *d = "0123456789abcdef";
  std::string o;
  o.reserve(s.size() * 2);
  for (unsigned char c : s) { o.push_back(d[c >> 4]); o.push_back(d[c & 15]); }
  return o;
}

inline uint64_t splitmix(uint64_t &x) {
  uint64_t z = (x += 0x9E3779B97F4A7C15ULL);
  z = (z ^ (z >> 30)) * 0xBF58476D1CE4E5B9ULL;
  z = (z ^ (z >> 27)) * 0x94D049BB133111EBULL;
  return z ^ (z >> 31);
}

// Expand one token into bytes. Returns false on syntax error.
inline bool expand_bytes(const std::string &tok, std::string &out) {
  out.clear();
  size_t i = 0;
  while (i <= tok.size()) {
    size_t j = tok.find('+', i);
    if (j == std::string::npos) j = tok.size();
    std::string a = tok.substr(i, j - i);
    if (a.empty()) return false;
    char k = a[0];
    if (k == 'x') {
      if ((a.size() - 1) % 2) return false;
      for (size_t p = 1; p + 1 < a.size(); p += 2) {
        int h = hexval(a[p]), l = hexval(a[p + 1]);
        if (h < 0 || l < 0) return false;
        out.push_back((char)(h * 16 + l));
      }
    } else if (k == 't') {
      out.append(a, 1, std::string::npos);
    } else if (k == 'r' || k == 'c' || k == 'z') {
      size_t dot = a.find('.');
      if (dot == std::string::npos) return false;
      std::string sa = a.substr(1, dot - 1);
      unsigned long long len = strtoull(a.c_str() + dot + 1, nullptr, 10);
      if (len > (64u << 20)) return false;
      if (k == 'z') {
        if (sa.size() != 2 || hexval(sa[0]) < 0 || hexval(sa[1]) < 0) return false;
        out.append((size_t)len, (char)(hexval(sa[0]) * 16 + hexval(sa[1])));
      } else {
        uint64_t st = strtoull(sa.c_str(), nullptr, 10) * 2654435761ULL + 12345;
        if (k == 'r') {
          size_t n = (size_t)len;
          size_t base = out.size();
          out.resize(base + n);
          size_t p = 0;
          while (p < n) {
            uint64_t v = splitmix(st);
            for (int b = 0; b < 8 && p < n; b++, p++) out[base + p] = (char)(v >> (8 * b));
          }
        } else {
          // compressible: a short random phrase repeated, with a counter now and then
          char phrase[24];
          uint64_t v = splitmix(st);
          int pl = 8 + (int)(v % 13);
          for (int b = 0; b < pl; b++) phrase[b] = (char)('a' + (splitmix(st) % 26));
          size_t n = (size_t)len, p = 0;
          size_t base = out.size();
          out.resize(base + n);
          while (p < n) {
            for (int b = 0; b < pl && p < n; b++, p++) out[base + p] = phrase[b];
          }
        }
      }
    } else {
      return false;
    }
    i = j + 1;
    if (j == tok.size()) break;
  }
  return true;
}

// Shortest readable token for literal bytes.
inline std::string lit_token(const std::string &bytes) {
  bool text = !bytes.empty();
  for (unsigned char c : bytes)
    if (!((c >= 'a' && c <= 'z') || (c >= 'A' && c <= 'Z') || (c >= '0' && c <= '9') || c == '_' || c == '-')) text = false;
  if (text) return "t" + bytes;
  return "x" + to_hex(bytes);
}

struct Op {
  std::string name;
  std::vector<std::string> args;
  std::map<std::string, std::string> kv;

  bool has(const std::string &k) const { return kv.count(k) != 0; }
  std::string get(const std::string &k, const std::string &def = "") const {
    auto it = kv.find(k);
    return it == kv.end() ? def : it->second;
  }
  long long geti(const std::string &k, long long def = 0) const {
    auto it = kv.find(k);
    return it == kv.end() ? def : strtoll(it->second.c_str(), nullptr, 10);
  }
  std::string str() const {
    std::string s = name;
    for (auto &a : args) { s += ' '; s += a; }
    for (auto &p : kv) { s += ' '; s += p.first; s += '='; s += p.second; }
    return s;
  }
};

struct Case {
  std::vector<Op> ops;
  std::string str() const {
    std::string s;
    for (auto &o : ops) { s += o.str(); s += '\n'; }
    return s;
  }
};

inline bool parse_op(const std::string &line, Op &op) {
  std::istringstream is(line);
  std::string tok;
  op = Op();
  if (!(is >> op.name)) return false;
  if (op.name[0] == '#') return false;
  while (is >> tok) {
    size_t eq = tok.find('=');
    if (eq != std::string::npos && eq > 0) op.kv[tok.substr(0, eq)] = tok.substr(eq + 1);
    else op.args.push_back(tok);
  }
  return true;
}

inline Case parse_case(const std::string &text) {
  Case c;
  std::istringstream is(text);
  std::string line;
  while (std::getline(is, line)) {
    Op op;
    if (parse_op(line, op)) c.ops.push_back(op);
  }
  return c;
}

inline bool read_file(const std::string &path, std::string &out) {
  FILE *f = fopen(path.c_str(), "rb");
  if (!f) return false;
  out.clear();
  char buf[65536];
  size_t n;
  while ((n = fread(buf, 1, sizeof buf, f)) > 0) out.append(buf, n);
  fclose(f);
  return true;
}

inline bool write_file(const std::string &path, const std::string &data) {
  FILE *f = fopen(path.c_str(), "wb");
  if (!f) return false;
  size_t n = fwrite(data.data(), 1, data.size(), f);
  fclose(f);
  return n == data.size();
}

inline uint64_t fnv1a(const std::string &s, uint64_t h = 1469598103934665603ULL) {
  for (unsigned char c : s) { h ^= c; h *= 1099511628211ULL; }
  return h;
}

}  // namespace vf

#endif
