// Parsing of ldb_property("leveldb.sstables") and the independent structural
// checks of C14 / C13 (decode of every table with the reference reader).
#ifndef VF_LAYOUT_H
#define VF_LAYOUT_H

#include <stdint.h>

#include <map>
#include <string>
#include <vector>

#include "case.h"
#include "lc.h"
#include "ref/ref.h"
#include "util.h"

namespace vf {

struct LayoutFile {
  uint64_t number = 0, size = 0;
  std::string smallest, largest;  // as printed (escaped user key ' @ seq : type)
  bool operator==(const LayoutFile &o) const {
    return number == o.number && size == o.size && smallest == o.smallest && largest == o.largest;
  }
};

struct Layout {
  std::vector<LayoutFile> levels[7];
  bool operator==(const Layout &o) const {
    for (int i = 0; i < 7; i++)
      if (!(levels[i] == o.levels[i])) return false;
    return true;
  }
  bool has(uint64_t n) const {
    for (int i = 0; i < 7; i++)
      for (auto &f : levels[i])
        if (f.number == n) return true;
    return false;
  }
  size_t files() const { size_t n = 0; for (int i = 0; i < 7; i++) n += levels[i].size(); return n; }
  std::string str() const {
    std::string s;
    for (int i = 0; i < 7; i++) {
      if (levels[i].empty()) continue;
      s += sfmt("L%d:", i);
      for (auto &f : levels[i]) s += sfmt(" #%llu(%llu)[%s .. %s]", (unsigned long long)f.number, (unsigned long long)f.size, f.smallest.c_str(), f.largest.c_str());
      s += "\n";
    }
    return s;
  }
  // shape hash: levels, file counts and bounds (not file numbers)
  uint64_t hash() const {
    uint64_t h = 1469598103934665603ULL;
    for (int i = 0; i < 7; i++) {
      h = fnv1a(sfmt("|%d:%zu", i, levels[i].size()), h);
      for (auto &f : levels[i]) h = fnv1a(f.smallest + ".." + f.largest, h);
    }
    return h;
  }
};

inline bool parse_layout(const std::string &text, Layout &L, std::string *err) {
  int level = -1;
  size_t pos = 0;
  while (pos < text.size()) {
    size_t nl = text.find('\n', pos);
    if (nl == std::string::npos) nl = text.size();
    std::string line = text.substr(pos, nl - pos);
    pos = nl + 1;
    if (line.empty()) continue;
    if (line.compare(0, 10, "--- level ") == 0) {
      level = atoi(line.c_str() + 10);
      if (level < 0 || level > 6) { *err = "bad level line: " + line; return false; }
      continue;
    }
    if (level < 0) { *err = "file line before level line"; return false; }
    // " num:size[smallest .. largest]"   (keys may contain any printable text incl. " .. ")
    size_t c = line.find(':');
    size_t b = line.find('[');
    if (line[0] != ' ' || c == std::string::npos || b == std::string::npos || c > b || line.back() != ']') { *err = "bad file line: " + line; return false; }
    LayoutFile f;
    f.number = strtoull(line.c_str() + 1, nullptr, 10);
    f.size = strtoull(line.c_str() + c + 1, nullptr, 10);
    std::string inner = line.substr(b + 1, line.size() - b - 2);
    // split at the " .. " that follows a "' @ <num> : <num>" suffix
    size_t split = std::string::npos;
    for (size_t p = inner.find(" .. "); p != std::string::npos; p = inner.find(" .. ", p + 1)) {
      // left part must end with " : <digits>"
      size_t q = p;
      while (q > 0 && isdigit((unsigned char)inner[q - 1])) q--;
      if (q < p && q >= 3 && inner.compare(q - 3, 3, " : ") == 0 && (inner[p + 4] == '\'' || inner.compare(p + 4, 5, "(bad)") == 0)) { split = p; break; }
    }
    if (split == std::string::npos) { *err = "cannot split bounds: " + line; return false; }
    f.smallest = inner.substr(0, split);
    f.largest = inner.substr(split + 4);
    L.levels[level].push_back(f);
  }
  return true;
}

inline bool parse_db_filename(const std::string &name, uint64_t *num, std::string *kind) {
  size_t p = name.rfind('/');
  std::string b = (p == std::string::npos) ? name : name.substr(p + 1);
  if (b.compare(0, 9, "MANIFEST-") == 0) {
    if (b.size() == 9) return false;
    for (size_t i = 9; i < b.size(); i++) if (!isdigit((unsigned char)b[i])) return false;
    *num = strtoull(b.c_str() + 9, nullptr, 10);
    *kind = "manifest";
    return true;
  }
  size_t dot = b.find('.');
  if (dot == std::string::npos || dot == 0) return false;
  for (size_t i = 0; i < dot; i++) if (!isdigit((unsigned char)b[i])) return false;
  *num = strtoull(b.c_str(), nullptr, 10);
  std::string ext = b.substr(dot);
  if (ext == ".log") *kind = "log";
  else if (ext == ".ldb" || ext == ".sst") *kind = "table";
  else if (ext == ".dbtmp") *kind = "temp";
  else return false;
  return true;
}

// lcdb's escaping of keys in the debug output (buffer.c: printable ASCII kept, else \xHH)
inline std::string escape_like_lcdb(const std::string &s) {
  static const char *nib = "0123456789abcdef";
  std::string o;
  for (unsigned char ch : s) {
    if (ch >= ' ' && ch <= '~') o.push_back((char)ch);
    else { o += "\\x"; o.push_back(nib[ch >> 4]); o.push_back(nib[ch & 15]); }
  }
  return o;
}

inline std::string ikey_debug(const std::string &ik) {
  ref::IKey k;
  if (ik.size() < 8) return "(bad)" + escape_like_lcdb(ik);
  uint64_t tag = ref::get_fixed64((const uint8_t *)ik.data() + ik.size() - 8);
  int type = (int)(tag & 0xff);
  if (type > 1) return "(bad)" + escape_like_lcdb(ik);
  return "'" + escape_like_lcdb(ik.substr(0, ik.size() - 8)) + "' @ " + std::to_string(tag >> 8) + " : " + std::to_string(type);
}

// internal key order: user key ascending (user comparator), then sequence|type descending
inline int ikey_cmp(CmpKind k, const std::string &a, const std::string &b) {
  int r = cmp_apply(k, a.data(), a.size() - 8, b.data(), b.size() - 8);
  if (r) return r;
  uint64_t ta = ref::get_fixed64((const uint8_t *)a.data() + a.size() - 8);
  uint64_t tb = ref::get_fixed64((const uint8_t *)b.data() + b.size() - 8);
  if (ta > tb) return -1;
  if (ta < tb) return 1;
  return 0;
}

struct DecodedFile {
  uint64_t number;
  int level;
  ref::Table table;
};

// What the structural checks need from one decoded table; tables are immutable once written, so the
// summary is cached per (number, size) within a case and every table is re-decoded at the final check.
struct TableSummary {
  uint64_t size = 0;
  std::string first, last;                                   // internal keys
  struct UserRange { std::string user; uint64_t minseq, maxseq; };
  std::vector<UserRange> users;                              // in file order
};
typedef std::map<uint64_t, TableSummary> SummaryCache;

inline bool summarise_table(const std::string &bytes, uint64_t number, CmpKind ck, TableSummary *out, std::string *why) {
  ref::Table t;
  std::string err;
  if (!ref::table_decode(bytes, &t, &err)) { *why = sfmt("C14: table #%llu does not decode with the reference reader: %s", (unsigned long long)number, err.c_str()); return false; }
  auto &es = t.entries;
  if (es.empty()) { *why = sfmt("C14: table #%llu in the layout holds no entries", (unsigned long long)number); return false; }
  for (size_t i = 0; i < es.size(); i++) {
    if (es[i].key.size() < 8) { *why = sfmt("C14: table #%llu entry %zu has a key shorter than 8 bytes", (unsigned long long)number, i); return false; }
    if (i > 0 && ikey_cmp(ck, es[i - 1].key, es[i].key) >= 0) {
      *why = sfmt("C14: table #%llu entries %zu,%zu are not strictly increasing (%s then %s)", (unsigned long long)number, i - 1, i,
                  ikey_debug(es[i - 1].key).c_str(), ikey_debug(es[i].key).c_str());
      return false;
    }
    std::string user = es[i].key.substr(0, es[i].key.size() - 8);
    uint64_t seq = ref::get_fixed64((const uint8_t *)es[i].key.data() + es[i].key.size() - 8) >> 8;
    if (!out->users.empty() && out->users.back().user == user) {
      if (seq < out->users.back().minseq) out->users.back().minseq = seq;
      if (seq > out->users.back().maxseq) out->users.back().maxseq = seq;
    } else {
      out->users.push_back(TableSummary::UserRange{user, seq, seq});
    }
  }
  out->size = bytes.size();
  out->first = es.front().key;
  out->last = es.back().key;
  return true;
}

// Returns false with *why = "C14: ..." / "C13: ..." on the first problem.
inline bool layout_deep_check(const Layout &L, const std::string &dir, CmpKind ck, std::string *why, SummaryCache *cache = nullptr, bool skip_l0_number_order = false) {
  struct Src { int level; uint64_t number; uint64_t minseq, maxseq; };
  std::map<std::string, std::vector<Src>> per_user;
  SummaryCache local;
  if (!cache) cache = &local;
  for (int lv = 0; lv < 7; lv++) {
    const std::string *prev_largest = nullptr;
    for (auto &f : L.levels[lv]) {
      std::string path = dir + sfmt("/%06llu.ldb", (unsigned long long)f.number);
      long long sz = file_size(path);
      if (sz < 0) { path = dir + sfmt("/%06llu.sst", (unsigned long long)f.number); sz = file_size(path); }
      if (sz < 0) { *why = sfmt("C13: table #%llu of the layout is missing on disk", (unsigned long long)f.number); return false; }
      if ((uint64_t)sz != f.size) { *why = sfmt("C14: table #%llu stated size %llu but file has %lld bytes", (unsigned long long)f.number, (unsigned long long)f.size, sz); return false; }
      auto it = cache->find(f.number);
      if (it == cache->end() || it->second.size != (uint64_t)sz) {
        std::string bytes;
        if (!read_file(path, bytes)) { *why = sfmt("C13: table #%llu of the layout cannot be read", (unsigned long long)f.number); return false; }
        TableSummary ts;
        if (!summarise_table(bytes, f.number, ck, &ts, why)) return false;
        (*cache)[f.number] = std::move(ts);
        it = cache->find(f.number);
      }
      const TableSummary &ts = it->second;
      if (ikey_debug(ts.first) != f.smallest) {
        *why = sfmt("C14: table #%llu stated smallest %s but first entry is %s", (unsigned long long)f.number, f.smallest.c_str(), ikey_debug(ts.first).c_str());
        return false;
      }
      if (ikey_debug(ts.last) != f.largest) {
        *why = sfmt("C14: table #%llu stated largest %s but last entry is %s", (unsigned long long)f.number, f.largest.c_str(), ikey_debug(ts.last).c_str());
        return false;
      }
      if (lv >= 1 && prev_largest) {
        if (ikey_cmp(ck, *prev_largest, ts.first) >= 0) {
          *why = sfmt("C14: level %d files overlap or are unsorted: previous largest %s, table #%llu smallest %s", lv,
                      ikey_debug(*prev_largest).c_str(), (unsigned long long)f.number, ikey_debug(ts.first).c_str());
          return false;
        }
      }
      prev_largest = &ts.last;
      for (auto &u : ts.users) {
        auto &v = per_user[u.user];
        if (!v.empty() && v.back().level == lv && lv >= 1) {
          if (u.minseq < v.back().minseq) v.back().minseq = u.minseq;
          if (u.maxseq > v.back().maxseq) v.back().maxseq = u.maxseq;
        } else {
          v.push_back(Src{lv, f.number, u.minseq, u.maxseq});
        }
      }
    }
  }
  // recency: level 0 by file number descending, then level 1, 2, ...
  for (auto &p : per_user) {
    auto v = p.second;
    if (v.size() < 2) continue;
    std::stable_sort(v.begin(), v.end(), [](const Src &a, const Src &b) {
      if (a.level != b.level) return a.level < b.level;
      if (a.level == 0) return a.number > b.number;
      return false;
    });
    for (size_t i = 1; i < v.size(); i++) {
      if (skip_l0_number_order && v[i].level == 0 && v[i - 1].level == 0) continue;
      if (!(v[i].maxseq < v[i - 1].minseq)) {
        *why = sfmt("C14: user key %s: version @%llu in L%d table #%llu is not older than version @%llu in L%d table #%llu above it",
                    lit_token(p.first).substr(0, 60).c_str(), (unsigned long long)v[i].maxseq, v[i].level, (unsigned long long)v[i].number,
                    (unsigned long long)v[i - 1].minseq, v[i - 1].level, (unsigned long long)v[i - 1].number);
        return false;
      }
    }
  }
  return true;
}

}  // namespace vf

#endif
