// Reference codecs written from the LevelDB format documents (doc/log_format.md,
// doc/table_format.md, doc/impl.md, the Snappy format description).  They share
// no code with lcdb and include none of its headers: they are the independent
// side of the format oracles (C14, C15, C16, C17, C19, C11).
#ifndef VF_REF_H
#define VF_REF_H

#include <stdint.h>
#include <string.h>

#include <map>
#include <string>
#include <vector>

namespace ref {

// ---------------------------------------------------------------- crc32c ----
inline uint32_t crc32c_bitwise(uint32_t crc, const uint8_t *p, size_t n) {
  crc = ~crc;
  for (size_t i = 0; i < n; i++) {
    crc ^= p[i];
    for (int k = 0; k < 8; k++) crc = (crc >> 1) ^ (0x82F63B78u & (0u - (crc & 1u)));
  }
  return ~crc;
}

// table-driven variant derived from the bitwise definition (for speed only)
inline uint32_t crc32c(uint32_t crc, const uint8_t *p, size_t n) {
  static uint32_t tab[256];
  static bool init = false;
  if (!init) {
    for (uint32_t i = 0; i < 256; i++) {
      uint32_t c = i;
      for (int k = 0; k < 8; k++) c = (c >> 1) ^ (0x82F63B78u & (0u - (c & 1u)));
      tab[i] = c;
    }
    init = true;
  }
  crc = ~crc;
  for (size_t i = 0; i < n; i++) crc = tab[(crc ^ p[i]) & 0xff] ^ (crc >> 8);
  return ~crc;
}
inline uint32_t crc32c(const std::string &s) { return crc32c(0, (const uint8_t *)s.data(), s.size()); }

static const uint32_t kMaskDelta = 0xa282ead8u;
inline uint32_t crc_mask(uint32_t crc) { return ((crc >> 15) | (crc << 17)) + kMaskDelta; }
inline uint32_t crc_unmask(uint32_t m) { uint32_t rot = m - kMaskDelta; return (rot >> 17) | (rot << 15); }

// ---------------------------------------------------------------- coding ----
inline void put_fixed32(std::string &o, uint32_t v) { for (int i = 0; i < 4; i++) o.push_back((char)(v >> (8 * i))); }
inline void put_fixed64(std::string &o, uint64_t v) { for (int i = 0; i < 8; i++) o.push_back((char)(v >> (8 * i))); }
inline uint32_t get_fixed32(const uint8_t *p) { return (uint32_t)p[0] | ((uint32_t)p[1] << 8) | ((uint32_t)p[2] << 16) | ((uint32_t)p[3] << 24); }
inline uint64_t get_fixed64(const uint8_t *p) { return (uint64_t)get_fixed32(p) | ((uint64_t)get_fixed32(p + 4) << 32); }

inline void put_varint64(std::string &o, uint64_t v) {
  while (v >= 128) { o.push_back((char)(v | 128)); v >>= 7; }
  o.push_back((char)v);
}
inline void put_varint32(std::string &o, uint32_t v) { put_varint64(o, v); }

struct Reader {
  const uint8_t *p, *end;
  Reader(const uint8_t *b, size_t n) : p(b), end(b + n) {}
  explicit Reader(const std::string &s) : p((const uint8_t *)s.data()), end((const uint8_t *)s.data() + s.size()) {}
  size_t left() const { return (size_t)(end - p); }
  bool varint64(uint64_t *v) {
    uint64_t r = 0;
    for (int shift = 0; shift <= 63 && p < end; shift += 7) {
      uint64_t b = *p++;
      if (b & 128) r |= (b & 127) << shift;
      else { r |= b << shift; *v = r; return true; }
    }
    return false;
  }
  bool varint32(uint32_t *v) {
    uint32_t r = 0;
    for (int shift = 0; shift <= 28 && p < end; shift += 7) {
      uint32_t b = *p++;
      if (b & 128) r |= (b & 127) << shift;
      else { r |= b << shift; *v = r; return true; }
    }
    return false;
  }
  bool bytes(size_t n, std::string *o) {
    if (left() < n) return false;
    o->assign((const char *)p, n);
    p += n;
    return true;
  }
  bool lp_string(std::string *o) {
    uint32_t n;
    if (!varint32(&n)) return false;
    return bytes(n, o);
  }
};

// ------------------------------------------------------------ log format ----
static const size_t kLogBlock = 32768;
static const size_t kLogHeader = 7;
enum { LOG_ZERO = 0, LOG_FULL = 1, LOG_FIRST = 2, LOG_MIDDLE = 3, LOG_LAST = 4 };

// Append one record to `file` (whose size defines the current block offset).
inline void log_append(std::string &file, const std::string &rec) {
  size_t left = rec.size(), pos = 0;
  bool begin = true;
  do {
    size_t off = file.size() % kLogBlock;
    size_t room = kLogBlock - off;
    if (room < kLogHeader) {
      file.append(room, '\0');
      room = kLogBlock;
    }
    size_t avail = room - kLogHeader;
    size_t frag = left < avail ? left : avail;
    bool end = (frag == left);
    int type = begin && end ? LOG_FULL : begin ? LOG_FIRST : end ? LOG_LAST : LOG_MIDDLE;
    std::string crcin;
    crcin.push_back((char)type);
    crcin.append(rec, pos, frag);
    uint32_t crc = crc_mask(crc32c(crcin));
    put_fixed32(file, crc);
    file.push_back((char)(frag & 0xff));
    file.push_back((char)(frag >> 8));
    file.push_back((char)type);
    file.append(rec, pos, frag);
    pos += frag;
    left -= frag;
    begin = false;
  } while (left > 0);
}

struct LogDecode {
  std::vector<std::string> records;
  std::vector<size_t> record_end;   // file offset just past each complete record
  size_t dropped_bytes = 0;         // bytes skipped because of damage (not a torn tail)
  int corruption_events = 0;
  bool torn_tail = false;           // file ends inside a record / header
};

// Strict decoder following the documented reader behaviour: a bad fragment
// drops the rest of its block; a record whose fragments are not contiguous is
// dropped; an incomplete record at the very end is a torn tail (not an error).
inline LogDecode log_decode(const std::string &file, size_t initial_offset = 0) {
  LogDecode out;
  std::string cur;
  bool in_rec = false;
  size_t pos = initial_offset - (initial_offset % kLogBlock);
  (void)initial_offset;
  while (pos < file.size()) {
    size_t block_end = (pos / kLogBlock + 1) * kLogBlock;
    if (block_end > file.size()) block_end = file.size();
    if (block_end - pos < kLogHeader) {
      // trailer (or truncated header at EOF)
      if (block_end == file.size() && (file.size() % kLogBlock) != 0) { out.torn_tail = out.torn_tail || in_rec || block_end - pos > 0; }
      pos = (pos / kLogBlock + 1) * kLogBlock;
      continue;
    }
    const uint8_t *h = (const uint8_t *)file.data() + pos;
    uint32_t crc = get_fixed32(h);
    size_t len = h[4] | (h[5] << 8);
    int type = h[6];
    if (pos + kLogHeader + len > block_end) {
      if (block_end == file.size() && (file.size() % kLogBlock) != 0) { out.torn_tail = true; break; }
      out.corruption_events++;
      out.dropped_bytes += block_end - pos;
      in_rec = false; cur.clear();
      pos = (pos / kLogBlock + 1) * kLogBlock;
      continue;
    }
    if (type == LOG_ZERO && len == 0) {
      // preallocated / zeroed region: skip rest of block silently
      in_rec = false; cur.clear();
      pos = (pos / kLogBlock + 1) * kLogBlock;
      continue;
    }
    std::string crcin;
    crcin.push_back((char)type);
    crcin.append(file, pos + kLogHeader, len);
    if (crc_unmask(crc) != crc32c(crcin)) {
      out.corruption_events++;
      out.dropped_bytes += block_end - pos;
      in_rec = false; cur.clear();
      pos = (pos / kLogBlock + 1) * kLogBlock;
      continue;
    }
    const std::string frag = file.substr(pos + kLogHeader, len);
    pos += kLogHeader + len;
    switch (type) {
      case LOG_FULL:
        if (in_rec) { out.corruption_events++; out.dropped_bytes += cur.size(); }
        out.records.push_back(frag); out.record_end.push_back(pos);
        in_rec = false; cur.clear();
        break;
      case LOG_FIRST:
        if (in_rec) { out.corruption_events++; out.dropped_bytes += cur.size(); }
        cur = frag; in_rec = true;
        break;
      case LOG_MIDDLE:
        if (!in_rec) { out.corruption_events++; out.dropped_bytes += frag.size(); }
        else cur += frag;
        break;
      case LOG_LAST:
        if (!in_rec) { out.corruption_events++; out.dropped_bytes += frag.size(); }
        else { cur += frag; out.records.push_back(cur); out.record_end.push_back(pos); in_rec = false; cur.clear(); }
        break;
      default:
        out.corruption_events++;
        out.dropped_bytes += frag.size() + cur.size();
        in_rec = false; cur.clear();
    }
  }
  if (in_rec) out.torn_tail = true;
  return out;
}

// ------------------------------------------------------------ write batch ---
struct BatchOp { bool put; std::string key, value; };
struct Batch { uint64_t seq = 0; uint32_t count = 0; std::vector<BatchOp> ops; };

inline bool batch_decode(const std::string &rec, Batch *b) {
  if (rec.size() < 12) return false;
  const uint8_t *p = (const uint8_t *)rec.data();
  b->seq = get_fixed64(p);
  b->count = get_fixed32(p + 8);
  Reader r(p + 12, rec.size() - 12);
  b->ops.clear();
  while (r.left() > 0) {
    uint8_t t = *r.p++;
    BatchOp op;
    if (t == 1) { op.put = true; if (!r.lp_string(&op.key) || !r.lp_string(&op.value)) return false; }
    else if (t == 0) { op.put = false; if (!r.lp_string(&op.key)) return false; }
    else return false;
    b->ops.push_back(op);
  }
  return b->ops.size() == b->count;
}

// ---------------------------------------------------------- internal keys ---
struct IKey { std::string user; uint64_t seq = 0; int type = 0; };
inline bool ikey_parse(const std::string &k, IKey *o) {
  if (k.size() < 8) return false;
  uint64_t tag = get_fixed64((const uint8_t *)k.data() + k.size() - 8);
  o->user.assign(k, 0, k.size() - 8);
  o->seq = tag >> 8;
  o->type = (int)(tag & 0xff);
  return o->type <= 1;
}
inline std::string ikey_make(const std::string &user, uint64_t seq, int type) {
  std::string k = user;
  put_fixed64(k, (seq << 8) | (uint64_t)type);
  return k;
}

// ----------------------------------------------------------- version edit ---
struct EditFile { int level; uint64_t number, size; std::string smallest, largest; };
struct Edit {
  bool has_comparator = false, has_log = false, has_prev_log = false, has_next = false, has_last_seq = false;
  std::string comparator;
  uint64_t log = 0, prev_log = 0, next_file = 0, last_seq = 0;
  std::vector<std::pair<int, std::string>> compact_pointers;
  std::vector<std::pair<int, uint64_t>> deleted;
  std::vector<EditFile> added;
};

inline void put_lp(std::string &o, const std::string &s) { put_varint32(o, (uint32_t)s.size()); o += s; }

// canonical field order used by LevelDB's VersionEdit::EncodeTo
inline std::string edit_encode(const Edit &e) {
  std::string o;
  if (e.has_comparator) { put_varint32(o, 1); put_lp(o, e.comparator); }
  if (e.has_log) { put_varint32(o, 2); put_varint64(o, e.log); }
  if (e.has_prev_log) { put_varint32(o, 9); put_varint64(o, e.prev_log); }
  if (e.has_next) { put_varint32(o, 3); put_varint64(o, e.next_file); }
  if (e.has_last_seq) { put_varint32(o, 4); put_varint64(o, e.last_seq); }
  for (auto &c : e.compact_pointers) { put_varint32(o, 5); put_varint32(o, (uint32_t)c.first); put_lp(o, c.second); }
  for (auto &d : e.deleted) { put_varint32(o, 6); put_varint32(o, (uint32_t)d.first); put_varint64(o, d.second); }
  for (auto &f : e.added) {
    put_varint32(o, 7); put_varint32(o, (uint32_t)f.level); put_varint64(o, f.number); put_varint64(o, f.size);
    put_lp(o, f.smallest); put_lp(o, f.largest);
  }
  return o;
}

inline bool edit_decode(const std::string &rec, Edit *e, std::string *err = nullptr) {
  Reader r(rec);
  *e = Edit();
  auto bad = [&](const char *m) { if (err) *err = m; return false; };
  while (r.left() > 0) {
    uint32_t tag;
    if (!r.varint32(&tag)) return bad("tag");
    uint32_t lv;
    switch (tag) {
      case 1: if (!r.lp_string(&e->comparator)) return bad("comparator"); e->has_comparator = true; break;
      case 2: if (!r.varint64(&e->log)) return bad("log"); e->has_log = true; break;
      case 9: if (!r.varint64(&e->prev_log)) return bad("prevlog"); e->has_prev_log = true; break;
      case 3: if (!r.varint64(&e->next_file)) return bad("next"); e->has_next = true; break;
      case 4: if (!r.varint64(&e->last_seq)) return bad("lastseq"); e->has_last_seq = true; break;
      case 5: { std::string k; if (!r.varint32(&lv) || lv >= 7 || !r.lp_string(&k)) return bad("compact pointer"); e->compact_pointers.push_back({(int)lv, k}); break; }
      case 6: { uint64_t n; if (!r.varint32(&lv) || lv >= 7 || !r.varint64(&n)) return bad("deleted file"); e->deleted.push_back({(int)lv, n}); break; }
      case 7: {
        EditFile f;
        if (!r.varint32(&lv) || lv >= 7 || !r.varint64(&f.number) || !r.varint64(&f.size) || !r.lp_string(&f.smallest) || !r.lp_string(&f.largest)) return bad("new file");
        f.level = (int)lv;
        e->added.push_back(f);
        break;
      }
      default: return bad("unknown tag");
    }
  }
  return true;
}

// ------------------------------------------------------- manifest replay ----
struct FileMeta { uint64_t number, size; std::string smallest, largest; };
struct VersionState {
  std::string comparator;
  uint64_t log = 0, prev_log = 0, next_file = 0, last_seq = 0;
  bool has_log = false, has_next = false, has_last_seq = false;
  std::map<uint64_t, FileMeta> levels[7];
  int edits = 0;
};

inline void manifest_apply(VersionState &v, const Edit &e) {
  if (e.has_comparator) v.comparator = e.comparator;
  if (e.has_log) { v.log = e.log; v.has_log = true; }
  if (e.has_prev_log) v.prev_log = e.prev_log;
  if (e.has_next) { v.next_file = e.next_file; v.has_next = true; }
  if (e.has_last_seq) { v.last_seq = e.last_seq; v.has_last_seq = true; }
  for (auto &d : e.deleted) v.levels[d.first].erase(d.second);
  for (auto &f : e.added) v.levels[f.level][f.number] = FileMeta{f.number, f.size, f.smallest, f.largest};
  v.edits++;
}

// Replays the bytes of a MANIFEST file. complete=false if a record fails to decode.
inline bool manifest_replay(const std::string &bytes, VersionState *v, std::string *err = nullptr, LogDecode *ld_out = nullptr) {
  LogDecode ld = log_decode(bytes);
  if (ld_out) *ld_out = ld;
  *v = VersionState();
  for (auto &rec : ld.records) {
    Edit e;
    if (!edit_decode(rec, &e, err)) return false;
    manifest_apply(*v, e);
  }
  if (ld.corruption_events) { if (err) *err = "corrupt manifest record"; return false; }
  return true;
}

// ----------------------------------------------------------------- snappy ---
inline bool snappy_uncompress(const uint8_t *in, size_t n, std::string *out) {
  Reader r(in, n);
  uint32_t ulen;
  if (!r.varint32(&ulen)) return false;
  out->clear();
  out->reserve(ulen);
  while (r.left() > 0) {
    uint8_t tag = *r.p++;
    int kind = tag & 3;
    if (kind == 0) {
      size_t len = (tag >> 2) + 1;
      if (len > 60) {
        size_t nb = len - 60;
        if (r.left() < nb) return false;
        size_t l = 0;
        for (size_t i = 0; i < nb; i++) l |= (size_t)r.p[i] << (8 * i);
        r.p += nb;
        len = l + 1;
      }
      if (r.left() < len) return false;
      out->append((const char *)r.p, len);
      r.p += len;
    } else {
      size_t len, off;
      if (kind == 1) {
        if (r.left() < 1) return false;
        len = 4 + ((tag >> 2) & 7);
        off = ((size_t)(tag >> 5) << 8) | *r.p++;
      } else if (kind == 2) {
        if (r.left() < 2) return false;
        len = (tag >> 2) + 1;
        off = r.p[0] | ((size_t)r.p[1] << 8);
        r.p += 2;
      } else {
        if (r.left() < 4) return false;
        len = (tag >> 2) + 1;
        off = get_fixed32(r.p);
        r.p += 4;
      }
      if (off == 0 || off > out->size()) return false;
      size_t start = out->size() - off;
      for (size_t i = 0; i < len; i++) out->push_back((*out)[start + i]);
    }
    if (out->size() > ulen) return false;
  }
  return out->size() == ulen;
}

// ------------------------------------------------------------------ hash ----
inline uint32_t leveldb_hash(const uint8_t *data, size_t n, uint32_t seed) {
  const uint32_t m = 0xc6a4a793u;
  const uint32_t r = 24;
  const uint8_t *limit = data + n;
  uint32_t h = seed ^ ((uint32_t)n * m);
  while (data + 4 <= limit) {
    uint32_t w = get_fixed32(data);
    data += 4;
    h += w; h *= m; h ^= (h >> 16);
  }
  switch (limit - data) {
    case 3: h += (uint32_t)data[2] << 16; /* fallthrough */
    case 2: h += (uint32_t)data[1] << 8;  /* fallthrough */
    case 1: h += data[0]; h *= m; h ^= (h >> r); break;
  }
  return h;
}

inline bool bloom_may_match(const std::string &filter, const std::string &key) {
  if (filter.size() < 2) return false;
  size_t bits = (filter.size() - 1) * 8;
  unsigned k = (uint8_t)filter[filter.size() - 1];
  if (k > 30) return true;
  uint32_t h = leveldb_hash((const uint8_t *)key.data(), key.size(), 0xbc9f1d34u);
  uint32_t delta = (h >> 17) | (h << 15);
  for (unsigned j = 0; j < k; j++) {
    uint32_t bp = h % bits;
    if (((uint8_t)filter[bp / 8] & (1 << (bp % 8))) == 0) return false;
    h += delta;
  }
  return true;
}

// ----------------------------------------------------------------- tables ---
struct Handle { uint64_t offset = 0, size = 0; };
inline bool handle_decode(Reader &r, Handle *h) { return r.varint64(&h->offset) && r.varint64(&h->size); }

static const uint64_t kTableMagic = 0xdb4775248b80fb57ull;

struct BlockEntry { std::string key, value; };

struct BlockInfo {
  std::vector<BlockEntry> entries;
  std::vector<uint32_t> restarts;
  bool compressed = false;
};

// Read block contents + verify trailer.  err describes the first problem.
inline bool read_block_raw(const std::string &file, const Handle &h, std::string *contents, bool *compressed, std::string *err) {
  if (h.offset > file.size() || h.size > file.size() || h.offset + h.size + 5 > file.size()) { *err = "block handle out of range"; return false; }
  const uint8_t *p = (const uint8_t *)file.data() + h.offset;
  uint8_t type = p[h.size];
  uint32_t stored = crc_unmask(get_fixed32(p + h.size + 1));
  uint32_t actual = crc32c(0, p, h.size + 1);
  if (stored != actual) { *err = "block checksum mismatch"; return false; }
  if (type == 0) { contents->assign((const char *)p, h.size); *compressed = false; }
  else if (type == 1) {
    if (!snappy_uncompress(p, h.size, contents)) { *err = "corrupt snappy block"; return false; }
    *compressed = true;
  } else { *err = "unknown block type"; return false; }
  return true;
}

inline bool parse_block(const std::string &c, BlockInfo *b, std::string *err) {
  b->entries.clear();
  b->restarts.clear();
  if (c.size() < 4) { *err = "block too small"; return false; }
  uint32_t nr = get_fixed32((const uint8_t *)c.data() + c.size() - 4);
  if ((uint64_t)nr * 4 + 4 > c.size()) { *err = "bad restart count"; return false; }
  size_t data_end = c.size() - 4 - (size_t)nr * 4;
  for (uint32_t i = 0; i < nr; i++) b->restarts.push_back(get_fixed32((const uint8_t *)c.data() + data_end + 4 * i));
  Reader r((const uint8_t *)c.data(), data_end);
  std::string last;
  size_t ri = 0;
  while (r.left() > 0) {
    size_t off = (size_t)(r.p - (const uint8_t *)c.data());
    uint32_t shared, non_shared, vlen;
    if (!r.varint32(&shared) || !r.varint32(&non_shared) || !r.varint32(&vlen)) { *err = "bad entry header"; return false; }
    if (shared > last.size()) { *err = "shared prefix longer than previous key"; return false; }
    if (r.left() < (size_t)non_shared + vlen) { *err = "entry overruns block"; return false; }
    // restart points must be exactly the entries with shared == 0 listed in the array
    if (ri < b->restarts.size() && b->restarts[ri] == off) {
      if (shared != 0) { *err = "restart entry with shared != 0"; return false; }
      ri++;
    }
    BlockEntry e;
    e.key.assign(last, 0, shared);
    e.key.append((const char *)r.p, non_shared);
    r.p += non_shared;
    e.value.assign((const char *)r.p, vlen);
    r.p += vlen;
    last = e.key;
    b->entries.push_back(std::move(e));
  }
  if (ri != b->restarts.size() && !(b->entries.empty() && nr == 1 && b->restarts[0] == 0)) { *err = "restart array does not point at entries"; return false; }
  return true;
}

struct Table {
  std::vector<BlockEntry> entries;           // all data entries in file order (internal keys for db tables)
  std::vector<std::string> index_keys;       // separator per data block
  std::vector<size_t> block_first;           // index into entries of each data block's first entry
  std::vector<Handle> block_handles;
  std::vector<bool> block_compressed;
  std::string filter_name;                   // "" if none
  std::string filter_block;                  // raw filter block contents
  size_t data_blocks = 0;
  uint64_t file_size = 0;
};

inline bool table_decode(const std::string &file, Table *t, std::string *err) {
  *t = Table();
  t->file_size = file.size();
  if (file.size() < 48) { *err = "file shorter than footer"; return false; }
  const uint8_t *f = (const uint8_t *)file.data() + file.size() - 48;
  if (get_fixed64(f + 40) != kTableMagic) { *err = "bad magic"; return false; }
  Reader fr(f, 40);
  Handle meta, index;
  if (!handle_decode(fr, &meta) || !handle_decode(fr, &index)) { *err = "bad footer handles"; return false; }
  std::string c;
  bool comp;
  BlockInfo ib;
  if (!read_block_raw(file, index, &c, &comp, err)) { *err = "index: " + *err; return false; }
  if (!parse_block(c, &ib, err)) { *err = "index: " + *err; return false; }
  for (auto &ie : ib.entries) {
    Reader hr(ie.value);
    Handle h;
    if (!handle_decode(hr, &h)) { *err = "bad data block handle"; return false; }
    BlockInfo db;
    std::string dc;
    if (!read_block_raw(file, h, &dc, &comp, err)) return false;
    if (!parse_block(dc, &db, err)) return false;
    t->index_keys.push_back(ie.key);
    t->block_first.push_back(t->entries.size());
    t->block_handles.push_back(h);
    t->block_compressed.push_back(comp);
    for (auto &e : db.entries) t->entries.push_back(e);
    t->data_blocks++;
  }
  // metaindex
  BlockInfo mb;
  std::string mc;
  if (!read_block_raw(file, meta, &mc, &comp, err)) { *err = "metaindex: " + *err; return false; }
  if (!parse_block(mc, &mb, err)) { *err = "metaindex: " + *err; return false; }
  for (auto &me : mb.entries) {
    if (me.key.compare(0, 7, "filter.") == 0) {
      t->filter_name = me.key.substr(7);
      Reader hr(me.value);
      Handle h;
      if (!handle_decode(hr, &h)) { *err = "bad filter handle"; return false; }
      if (!read_block_raw(file, h, &t->filter_block, &comp, err)) { *err = "filter: " + *err; return false; }
    }
  }
  return true;
}

// filter block lookup per table_format.md: filter for the 2 KiB range containing block_offset
inline bool filter_block_may_match(const std::string &fb, uint64_t block_offset, const std::string &key, bool *wellformed) {
  *wellformed = false;
  if (fb.size() < 5) return true;
  uint8_t base_lg = (uint8_t)fb[fb.size() - 1];
  uint32_t array_off = get_fixed32((const uint8_t *)fb.data() + fb.size() - 5);
  if (array_off > fb.size() - 5) return true;
  size_t num = (fb.size() - 5 - array_off) / 4;
  *wellformed = true;
  uint64_t idx = block_offset >> base_lg;
  if (idx >= num) return true;
  uint32_t start = get_fixed32((const uint8_t *)fb.data() + array_off + idx * 4);
  uint32_t limit = get_fixed32((const uint8_t *)fb.data() + array_off + idx * 4 + 4);  // next offset or array_off itself
  if (start > limit || limit > array_off) { *wellformed = false; return true; }
  if (start == limit) return false;  // empty filter matches nothing
  return bloom_may_match(fb.substr(start, limit - start), key);
}

}  // namespace ref

#endif
