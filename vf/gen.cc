// Case generators (rapidcheck).  This is the only translation unit that
// includes rapidcheck; it knows the case *text* format and nothing about lcdb.
// All random choices are rapidcheck generator draws from rc::Random(seed).
#include <rapidcheck.h>

#include <stdint.h>
#include <stdio.h>
#include <stdarg.h>
#include <string>
#include <vector>

namespace vf {

namespace {

using rc::Gen;

std::string fmt(const char *f, ...) {
  char buf[512];
  va_list ap;
  va_start(ap, f);
  vsnprintf(buf, sizeof buf, f, ap);
  va_end(ap);
  return buf;
}

// uniform integer in [a,b] independent of the size parameter
int uni(int a, int b) { return *rc::gen::resize(rc::kNominalSize, rc::gen::inRange(a, b + 1)); }
bool chance(int percent) { return uni(0, 99) < percent; }

template <typename T>
T pick(const std::vector<std::pair<int, T>> &w) {
  int total = 0;
  for (auto &p : w) total += p.first;
  int x = uni(0, total - 1);
  for (auto &p : w) {
    if (x < p.first) return p.second;
    x -= p.first;
  }
  return w.back().second;
}

struct Profile {
  std::string kind;
  bool thorough = false;
  int nkeys = 12;       // size of the numbered key universe
  // existence tracking only (no semantics): keeps most generated ops applicable
  std::vector<int> iters, snaps;
};

int pick_from(const std::vector<int> &v) { return v[uni(0, (int)v.size() - 1)]; }
void erase_val(std::vector<int> &v, int x) {
  for (size_t i = 0; i < v.size(); i++) if (v[i] == x) { v.erase(v.begin() + i); return; }
}
bool contains(const std::vector<int> &v, int x) { for (int y : v) if (y == x) return true; return false; }
int fresh_id(const std::vector<int> &v, int max) {
  for (int tries = 0; tries < 8; tries++) { int x = uni(0, max); if (!contains(v, x)) return x; }
  return uni(0, max);
}
int snap_ref(const Profile &p) { return (!p.snaps.empty() && chance(90)) ? pick_from(p.snaps) : uni(0, 4); }

// ---- keys ------------------------------------------------------------------
std::string gen_key(const Profile &p) {
  int c = uni(0, 99);
  if (c < 62) return fmt("tk%04d", uni(0, p.nkeys - 1));
  if (c < 90) {
    static const char *fam[] = {"x", "ta", "x6100", "x61ff", "tab", "tabc", "tb", "xff", "xffff", "xffffff", "x00", "x0000",
                                "tk", "tk0", "x6b30303031ff", "tz"};
    return fam[uni(0, 15)];
  }
  if (c < 97) return fmt("tL+z61.%d+t%d", uni(120, 300), uni(0, 3));       // > 128 bytes, shared prefix
  return fmt("tV+z62.%d+t%d", uni(1100, 9000), uni(0, 2));                  // longer than a block
}

// ---- values ----------------------------------------------------------------
std::string gen_val(const Profile &p) {
  int c = uni(0, 999);
  char kind = chance(50) ? 'r' : 'c';
  int seed = uni(0, 999999);
  int len;
  if (c < 80) len = 0;
  else if (c < 550) len = uni(1, 60);
  else if (c < 800) len = uni(200, 1500);
  else if (c < 930) len = uni(3000, 7000);
  else if (c < 975) len = uni(15000, 40000);
  else if (c < 995 || !p.thorough) len = uni(66000, 76000);            // above the minimum write buffer
  else len = uni(300000, 1200000);                                     // one key's versions can span files
  if (len == 0) return "x";
  return fmt("%c%d.%d", kind, seed, len);
}

// ---- configuration ---------------------------------------------------------
std::string gen_config(const Profile &p) {
  std::string s = "config";
  s += fmt(" wbs=%d", pick<int>({{6, 65536}, {2, 131072}, {1, 262144}, {1, 4 << 20}}));
  s += fmt(" bs=%d", pick<int>({{3, 1024}, {3, 4096}, {1, 16384}, {1, 2048}}));
  s += fmt(" ri=%d", pick<int>({{2, 1}, {2, 2}, {2, 4}, {5, 16}, {1, 64}}));
  s += fmt(" mfs=%d", pick<int>({{4, 1 << 20}, {3, 2 << 20}}));
  s += fmt(" comp=%d", uni(0, 1));
  s += fmt(" bloom=%d", pick<int>({{4, 0}, {4, 10}, {1, 1}, {1, 20}}));
  s += " cache=" + pick<std::string>({{4, "default"}, {3, "tiny"}, {2, "zero"}});
  s += fmt(" mof=%d", pick<int>({{3, 1000}, {2, 74}, {1, 10}}));
  s += fmt(" mmap=%d", uni(0, 1));
  s += fmt(" reuse=%d", uni(0, 1));
  s += fmt(" paranoid=%d", uni(0, 1));
  s += " cmp=" + pick<std::string>({{6, "bytewise"}, {2, "reverse"}, {1, "clone"}, {2, "lenfirst"}});
  s += " sched=" + pick<std::string>({{4, "eager"}, {3, "starved"}, {3, "random"}});
  s += fmt(" sseed=%d", uni(1, 1000000));
  if (chance(15)) s += " spur=1";
  return s;
}

// ---- operations ------------------------------------------------------------
enum OpK { PUT, DEL, BATCH, GET, HAS, FLUSH, CRANGE, COMPACT, REOPEN, SNAP, RELEASE, ITER_NEW, ITER, ITER_DEL, CHECK, FILL, READS, PROP, APPROX, GETSNAP };

std::string gen_iter_action(const Profile &p) {
  int id = (!p.iters.empty() && chance(92)) ? pick_from(p.iters) : uni(0, 3);
  int c = uni(0, 99);
  if (c < 30) return fmt("iter %d next", id);
  if (c < 58) return fmt("iter %d prev", id);
  if (c < 64) return fmt("iter %d first", id);
  if (c < 70) return fmt("iter %d last", id);
  static const char *sk[] = {"seek", "seek_ge", "seek_gt", "seek_le", "seek_lt"};
  return fmt("iter %d %s ", id, sk[uni(0, 4)]) + gen_key(p);
}

std::string gen_range_arg(const Profile &p) { return chance(55) ? std::string("-") : gen_key(p); }

std::string gen_op(Profile &p, const std::vector<std::pair<int, OpK>> &weights) {
  OpK k = pick<OpK>(weights);
  std::string sync = chance(12) ? " sync=1" : "";
  switch (k) {
    case PUT: return "put " + gen_key(p) + " " + gen_val(p) + sync;
    case DEL: return "del " + gen_key(p) + sync;
    case BATCH: {
      int n = pick<int>({{6, uni(1, 4)}, {3, uni(5, 12)}, {1, uni(20, 60)}});
      std::string s = "batch";
      for (int i = 0; i < n; i++) {
        if (chance(75)) s += " p:" + gen_key(p) + ":" + gen_val(p);
        else s += " d:" + gen_key(p);
      }
      return s + sync;
    }
    case GET: {
      std::string s = "get " + gen_key(p);
      if (chance(30)) s += " verify=1";
      if (chance(20)) s += " fill=0";
      return s;
    }
    case GETSNAP: {
      std::string s = fmt("get %s snap=%d", gen_key(p).c_str(), snap_ref(p));
      if (chance(30)) s += " verify=1";
      return s;
    }
    case HAS: return "has " + gen_key(p) + (chance(30) ? fmt(" snap=%d", snap_ref(p)) : "");
    case FLUSH: return "flush";
    case CRANGE: return fmt("crange %d ", pick<int>({{5, 0}, {4, 1}, {3, 2}, {2, 3}, {1, 4}, {1, 5}})) + gen_range_arg(p) + " " + gen_range_arg(p);
    case COMPACT: return "compact " + gen_range_arg(p) + " " + gen_range_arg(p);
    case REOPEN: {
      std::string s = "reopen";
      p.iters.clear();
      p.snaps.clear();
      if (chance(30)) s += fmt(" reuse=%d", uni(0, 1));
      if (chance(20)) s += " cache=" + pick<std::string>({{1, "default"}, {1, "tiny"}, {1, "zero"}});
      if (chance(20)) s += fmt(" bloom=%d", pick<int>({{1, 0}, {1, 10}}));
      if (chance(20)) s += fmt(" comp=%d", uni(0, 1));
      if (chance(20)) s += fmt(" mmap=%d", uni(0, 1));
      if (chance(15)) s += fmt(" bs=%d", pick<int>({{1, 1024}, {1, 4096}}));
      if (chance(15)) s += fmt(" paranoid=%d", uni(0, 1));
      return s;
    }
    case SNAP: { int id = fresh_id(p.snaps, 4); if (!contains(p.snaps, id)) p.snaps.push_back(id); return fmt("snap %d", id); }
    case RELEASE: {
      int id = (!p.snaps.empty() && chance(90)) ? pick_from(p.snaps) : uni(0, 4);
      erase_val(p.snaps, id);
      return fmt("release %d", id);
    }
    case ITER_NEW: {
      int id = fresh_id(p.iters, 3);
      if (!contains(p.iters, id)) p.iters.push_back(id);
      std::string s = fmt("iter_new %d", id);
      if (chance(30)) s += fmt(" snap=%d", snap_ref(p));
      if (chance(30)) s += " verify=1";
      if (chance(20)) s += " fill=0";
      // position it at once so that next/prev apply
      int c = uni(0, 99);
      if (c < 30) s += fmt("\niter %d first", id);
      else if (c < 55) s += fmt("\niter %d last", id);
      else if (c < 90) s += fmt("\niter %d %s ", id, chance(50) ? "seek" : "seek_le") + gen_key(p);
      return s;
    }
    case ITER:
      if (p.iters.empty()) { p.iters.push_back(0); return "iter_new 0"; }
      return gen_iter_action(p);
    case ITER_DEL: {
      int id = (!p.iters.empty() && chance(90)) ? pick_from(p.iters) : uni(0, 3);
      erase_val(p.iters, id);
      return fmt("iter_del %d", id);
    }
    case CHECK: return "check";
    case FILL: {
      int lo = uni(0, 40);
      int nb = pick<int>({{3, 1000}, {2, 3000}, {1, 9000}});
      int total = pick<int>({{3, 70000}, {2, 140000}, {1, 300000}});
      return fmt("fill %d %d %d %d", lo, lo + total / nb, nb, uni(1, 50));
    }
    case READS: return "reads " + gen_key(p) + fmt(" %d", uni(50, 400));
    case PROP: return "prop";
    case APPROX: return "approx " + gen_key(p) + " " + gen_key(p);
  }
  return "check";
}

std::vector<std::pair<int, OpK>> weights_for(const std::string &kind) {
  if (kind == "C06")
    return {{26, PUT}, {10, DEL}, {6, BATCH}, {4, GET}, {16, GETSNAP}, {3, HAS}, {8, FLUSH}, {10, CRANGE}, {2, COMPACT}, {2, REOPEN},
            {9, SNAP}, {4, RELEASE}, {3, ITER_NEW}, {5, ITER}, {1, ITER_DEL}, {3, CHECK}, {1, FILL}};
  if (kind == "C07")
    return {{22, PUT}, {10, DEL}, {6, BATCH}, {3, GET}, {2, GETSNAP}, {7, FLUSH}, {7, CRANGE}, {1, COMPACT}, {2, REOPEN},
            {3, SNAP}, {1, RELEASE}, {7, ITER_NEW}, {40, ITER}, {2, ITER_DEL}, {2, CHECK}, {1, FILL}};
  if (kind == "C13")
    return {{24, PUT}, {8, DEL}, {5, BATCH}, {3, GET}, {12, FLUSH}, {12, CRANGE}, {4, COMPACT}, {6, REOPEN},
            {2, SNAP}, {1, RELEASE}, {6, ITER_NEW}, {10, ITER}, {2, ITER_DEL}, {2, CHECK}, {2, FILL}};
  if (kind == "C14")
    return {{26, PUT}, {8, DEL}, {6, BATCH}, {3, GET}, {12, FLUSH}, {14, CRANGE}, {4, COMPACT}, {5, REOPEN},
            {3, SNAP}, {1, RELEASE}, {1, ITER_NEW}, {2, ITER}, {1, ITER_DEL}, {2, CHECK}, {3, FILL}, {2, READS}, {1, PROP}};
  // C01 and default
  return {{30, PUT}, {10, DEL}, {8, BATCH}, {12, GET}, {2, HAS}, {8, FLUSH}, {9, CRANGE}, {2, COMPACT}, {3, REOPEN},
          {2, SNAP}, {1, RELEASE}, {2, GETSNAP}, {2, ITER_NEW}, {5, ITER}, {1, ITER_DEL}, {3, CHECK}, {1, FILL}, {1, READS}, {1, PROP}, {1, APPROX}};
}

// ---- scenario skeletons (prefixes that build rare layouts cheaply) -----------
std::string new_snap(Profile &p) {
  int id = fresh_id(p.snaps, 4);
  if (!contains(p.snaps, id)) p.snaps.push_back(id);
  return fmt("snap %d", id);
}

void skeleton(Profile &p, std::vector<std::string> &out) {
  int c = uni(0, 99);
  if (c < 30) return;  // free-form only
  if (c < 50) {
    // value pushed deep, tombstone (or overwrite) flushed above it, then compact the upper level
    std::string k = gen_key(p);
    int depth = uni(0, 4);
    out.push_back("put " + k + " " + gen_val(p));
    if (chance(40)) out.push_back("put " + gen_key(p) + " " + gen_val(p));
    out.push_back("flush");
    for (int l = 0; l <= depth; l++) out.push_back(fmt("crange %d - -", l));
    if (chance(30)) out.push_back(new_snap(p));
    out.push_back(chance(65) ? "del " + k : "put " + k + " " + gen_val(p));
    out.push_back("flush");
    int up = uni(0, depth);
    for (int l = 0; l < up; l++) out.push_back(fmt("crange %d - -", l));
    out.push_back("get " + k);
    if (chance(50)) out.push_back(fmt("crange %d ", up) + gen_range_arg(p) + " " + gen_range_arg(p));
    out.push_back("get " + k);
  } else if (c < 65) {
    // several overlapping level-0 files with shadowed versions
    int n = uni(2, 6);
    std::string k = gen_key(p);
    for (int i = 0; i < n; i++) {
      out.push_back(chance(80) ? "put " + k + " " + gen_val(p) : "del " + k);
      if (chance(60)) out.push_back("put " + gen_key(p) + " " + gen_val(p));
      if (chance(25)) out.push_back(new_snap(p));
      out.push_back("flush");
    }
  } else if (c < 78) {
    // disjoint single-key tables land in level 2 and stay separate: many files
    int n = p.thorough ? uni(20, 90) : uni(4, 14);
    for (int i = 0; i < n; i++) {
      out.push_back(fmt("put tk%04d ", i) + gen_val(p));
      out.push_back("flush");
    }
    if (chance(50)) out.push_back("check");
  } else if (c < 88) {
    // same user key written under held snapshots with values big enough to split files (thorough)
    std::string k = gen_key(p);
    int n = uni(2, 5);
    for (int i = 0; i < n; i++) {
      int len = p.thorough ? uni(250000, 600000) : uni(20000, 70000);
      out.push_back(fmt("put %s r%d.%d", k.c_str(), uni(0, 99999), len));
      out.push_back(new_snap(p));
      if (chance(40)) out.push_back("flush");
    }
    out.push_back("flush");
    out.push_back("crange 0 - -");
    out.push_back("crange 1 - -");
    out.push_back("get " + k);
  } else {
    // automatic flush by volume, then reads
    out.push_back(fmt("fill %d %d %d %d", 0, uni(60, 160), pick<int>({{2, 1000}, {1, 2500}}), uni(1, 50)));
    out.push_back("check");
  }
}

std::string build_case(const std::string &kind_in) {
  Profile p;
  std::string kind = kind_in;
  size_t dash = kind.find('-');
  if (dash != std::string::npos) {
    if (kind.substr(dash + 1) == "thorough") p.thorough = true;
    kind = kind.substr(0, dash);
  }
  p.kind = kind;
  p.nkeys = pick<int>({{3, 6}, {4, 12}, {2, 40}});
  std::vector<std::string> lines;
  lines.push_back(gen_config(p));
  skeleton(p, lines);
  auto w = weights_for(kind);
  // length scales with the size parameter
  int len = *rc::gen::withSize([&](int size) { return rc::gen::just(size); });
  int nops = 4 + (p.thorough ? len * 3 : (len * 6) / 10) + uni(0, 6);
  for (int i = 0; i < nops; i++) lines.push_back(gen_op(p, w));
  std::string text;
  for (auto &l : lines) { text += l; text += "\n"; }
  return text;
}

// ---- crash / fault histories (C02 C03 C04 C05 C12 C17): writes with sync flags, structure changes, reopen ----
std::string crash_val(const Profile &p, bool c04) {
  int c = uni(0, 999);
  char kind = chance(50) ? 'r' : 'c';
  int seed = uni(0, 999999);
  int len;
  if (c < 60) len = 0;
  else if (c < 700) len = uni(1, 120);
  else if (c < 900) len = uni(500, 4000);
  else if (c < (c04 ? 940 : 985)) len = uni(8000, 20000);
  else len = uni(33000, p.thorough ? 140000 : 70000);   // spans log blocks
  if (len == 0) return "x";
  return fmt("%c%d.%d", kind, seed, len);
}

std::string build_crash_case(const std::string &kind_in) {
  Profile p;
  std::string kind = kind_in;
  size_t dash = kind.find('-');
  if (dash != std::string::npos) {
    if (kind.substr(dash + 1) == "thorough") p.thorough = true;
    kind = kind.substr(0, dash);
  }
  p.kind = kind;
  p.nkeys = pick<int>({{3, 5}, {4, 10}, {2, 30}});
  bool c04 = kind == "C04", c17 = kind == "C17";
  std::vector<std::string> lines;
  {
    std::string s = "config";
    s += fmt(" wbs=%d", pick<int>({{8, 65536}, {1, 131072}}));
    s += fmt(" bs=%d", pick<int>({{2, 1024}, {3, 4096}}));
    s += fmt(" ri=%d", pick<int>({{1, 1}, {3, 16}}));
    s += fmt(" comp=%d", uni(0, 1));
    s += fmt(" bloom=%d", pick<int>({{2, 0}, {1, 10}}));
    s += fmt(" mmap=%d", uni(0, 1));
    s += fmt(" reuse=%d", uni(0, 1));
    s += fmt(" paranoid=%d", uni(0, 1));
    s += " cmp=" + pick<std::string>({{8, "bytewise"}, {1, "reverse"}, {1, "lenfirst"}});
    s += " sched=" + pick<std::string>({{3, "eager"}, {3, "starved"}, {4, "random"}});
    s += fmt(" sseed=%d", uni(1, 1000000));
    lines.push_back(s);
  }
  int len = *rc::gen::withSize([&](int size) { return rc::gen::just(size); });
  int nops = 5 + (p.thorough ? len : (len * 35) / 100) + uni(0, 5);
  int sync_pct = pick<int>({{2, 10}, {3, 35}, {1, 80}});
  for (int i = 0; i < nops; i++) {
    int c = uni(0, 99);
    std::string sync = chance(sync_pct) ? " sync=1" : "";
    int wput = 42, wdel = 8, wbatch = c04 ? 30 : 12, wflush = 8, wcr = 6, wcomp = 1, wreopen = c17 ? 14 : 6, wfill = 3;
    int total = wput + wdel + wbatch + wflush + wcr + wcomp + wreopen + wfill;
    c = uni(0, total - 1);
    if ((c -= wput) < 0) lines.push_back("put " + gen_key(p) + " " + crash_val(p, c04) + sync);
    else if ((c -= wdel) < 0) lines.push_back("del " + gen_key(p) + sync);
    else if ((c -= wbatch) < 0) {
      int n = c04 ? pick<int>({{4, uni(2, 6)}, {3, uni(7, 40)}, {1, uni(100, p.thorough ? 2000 : 400)}}) : pick<int>({{6, uni(1, 4)}, {2, uni(5, 20)}});
      std::string s = "batch";
      for (int j = 0; j < n; j++) {
        if (chance(78)) s += " p:" + gen_key(p) + ":" + (n > 50 ? fmt("r%d.%d", uni(0, 99999), uni(0, 300)) : crash_val(p, c04));
        else s += " d:" + gen_key(p);
      }
      lines.push_back(s + sync);
    }
    else if ((c -= wflush) < 0) lines.push_back("flush");
    else if ((c -= wcr) < 0) lines.push_back(fmt("crange %d - -", pick<int>({{5, 0}, {3, 1}, {1, 2}})));
    else if ((c -= wcomp) < 0) lines.push_back("compact");
    else if ((c -= wreopen) < 0) {
      std::string s = "reopen";
      if (chance(40)) s += fmt(" reuse=%d", uni(0, 1));
      if (chance(15)) s += fmt(" paranoid=%d", uni(0, 1));
      lines.push_back(s);
    } else {
      int nb = pick<int>({{3, 1000}, {2, 2500}});
      int total_b = pick<int>({{3, 70000}, {1, 140000}});
      int lo = uni(0, 20);
      lines.push_back(fmt("fill %d %d %d %d syncevery=%d", lo, lo + total_b / nb, nb, uni(1, 50), pick<int>({{2, 0}, {2, 3}, {1, 10}})));
    }
  }
  std::string text;
  for (auto &l : lines) { text += l; text += "\n"; }
  return text;
}

bool is_crash_kind(const std::string &k) {
  std::string b = k.substr(0, k.find('-'));
  return b == "C02" || b == "C03" || b == "C04" || b == "C05" || b == "C12" || b == "C17";
}

}  // namespace

std::string gen_case(const char *kind, uint64_t seed, int size) {
  std::string k = kind;
  if (is_crash_kind(k)) {
    Gen<std::string> g2 = rc::gen::exec([k]() { return build_crash_case(k); });
    return g2(rc::Random(seed), size).value();
  }
  Gen<std::string> g = rc::gen::exec([k]() { return build_case(k); });
  return g(rc::Random(seed), size).value();
}

}  // namespace vf
