// Case generators (rapidcheck).  This is the only translation unit that
// includes rapidcheck; it knows the case *text* format and nothing about lcdb.
// All random choices are rapidcheck generator draws from rc::Random(seed).
#include <rapidcheck.h>

#include <stdint.h>
#include <stdio.h>
#include <stdlib.h>
#include <stdarg.h>
#include <algorithm>
#include <string.h>
#include <string>
#include <vector>

namespace vf {

namespace {

using rc::Gen;

std::string fmt(const char *f, ...) {
  char buf[512];
  va_list ap;
  va_start(ap, f);
  vsnprintf(buf, sizeof buf, f, ap);
  va_end(ap);
  return buf;
}

// uniform integer in [a,b] independent of the size parameter
int uni(int a, int b) { return *rc::gen::resize(rc::kNominalSize, rc::gen::inRange(a, b + 1)); }
bool chance(int percent) { return uni(0, 99) < percent; }

template <typename T>
T pick(const std::vector<std::pair<int, T>> &w) {
  int total = 0;
  for (auto &p : w) total += p.first;
  int x = uni(0, total - 1);
  for (auto &p : w) {
    if (x < p.first) return p.second;
    x -= p.first;
  }
  return w.back().second;
}

struct Profile {
  std::string kind;
  bool thorough = false;
  int nkeys = 12;       // size of the numbered key universe
  // existence tracking only (no semantics): keeps most generated ops applicable
  std::vector<int> iters, snaps;
  std::vector<std::string> used;   // key tokens written so far (range bounds are drawn from them)
};

int pick_from(const std::vector<int> &v) { return v[uni(0, (int)v.size() - 1)]; }
void erase_val(std::vector<int> &v, int x) {
  for (size_t i = 0; i < v.size(); i++) if (v[i] == x) { v.erase(v.begin() + i); return; }
}
bool contains(const std::vector<int> &v, int x) { for (int y : v) if (y == x) return true; return false; }
int fresh_id(const std::vector<int> &v, int max) {
  for (int tries = 0; tries < 8; tries++) { int x = uni(0, max); if (!contains(v, x)) return x; }
  return uni(0, max);
}
int snap_ref(const Profile &p) { return (!p.snaps.empty() && chance(90)) ? pick_from(p.snaps) : uni(0, 4); }

// ---- keys ------------------------------------------------------------------
std::string gen_key_raw(const Profile &p);
std::string gen_key(Profile &p) {
  std::string k = gen_key_raw(p);
  if (p.used.size() < 64) p.used.push_back(k);
  return k;
}
std::string gen_key(const Profile &p) { return gen_key_raw(p); }

std::string gen_key_raw(const Profile &p) {
  int c = uni(0, 99);
  if (c < 62) return fmt("tk%04d", uni(0, p.nkeys - 1));
  if (c < 90) {
    static const char *fam[] = {"x", "ta", "x6100", "x61ff", "tab", "tabc", "tb", "xff", "xffff", "xffffff", "x00", "x0000",
                                "tk", "tk0", "x6b30303031ff", "tz"};
    return fam[uni(0, 15)];
  }
  if (c < 97) return fmt("tL+z61.%d+t%d", uni(120, 300), uni(0, 3));       // > 128 bytes, shared prefix
  return fmt("tV+z62.%d+t%d", uni(1100, 9000), uni(0, 2));                  // longer than a block
}

// ---- values ----------------------------------------------------------------
std::string gen_val(const Profile &p) {
  int c = uni(0, 999);
  char kind = chance(50) ? 'r' : 'c';
  int seed = uni(0, 999999);
  int len;
  if (c < 80) len = 0;
  else if (c < 550) len = uni(1, 60);
  else if (c < 800) len = uni(200, 1500);
  else if (c < 930) len = uni(3000, 7000);
  else if (c < 975) len = uni(15000, 40000);
  else if (c < 995 || !p.thorough) len = uni(66000, 76000);            // above the minimum write buffer
  else len = uni(300000, 1200000);                                     // one key's versions can span files
  if (len == 0) return "x";
  return fmt("%c%d.%d", kind, seed, len);
}

// ---- configuration ---------------------------------------------------------
std::string gen_config(const Profile &p) {
  std::string s = "config";
  s += fmt(" wbs=%d", pick<int>({{6, 65536}, {2, 131072}, {1, 262144}, {1, 4 << 20}}));
  s += fmt(" bs=%d", pick<int>({{3, 1024}, {3, 4096}, {1, 16384}, {1, 2048}}));
  s += fmt(" ri=%d", pick<int>({{2, 1}, {2, 2}, {2, 4}, {5, 16}, {1, 64}}));
  s += fmt(" mfs=%d", pick<int>({{4, 1 << 20}, {3, 2 << 20}}));
  s += fmt(" comp=%d", uni(0, 1));
  s += fmt(" bloom=%d", pick<int>({{4, 0}, {4, 10}, {1, 1}, {1, 4}, {1, 20}}));
  s += " cache=" + pick<std::string>({{4, "default"}, {3, "tiny"}, {2, "zero"}});
  s += fmt(" mof=%d", pick<int>({{3, 1000}, {2, 74}, {1, 10}}));
  s += fmt(" mmap=%d", uni(0, 1));
  s += fmt(" reuse=%d", uni(0, 1));
  s += fmt(" paranoid=%d", uni(0, 1));
  s += " cmp=" + pick<std::string>({{6, "bytewise"}, {2, "reverse"}, {1, "clone"}, {2, "lenfirst"}});
  s += " sched=" + pick<std::string>({{4, "eager"}, {3, "starved"}, {3, "random"}});
  s += fmt(" sseed=%d", uni(1, 1000000));
  if (chance(15)) s += " spur=1";
  if (chance(p.kind == "C15f" ? 100 : 20)) s += " iop=1";   // benign short reads/writes and EINTR (vfio.h); ignored by engines that do not know it
  return s;
}

// ---- operations ------------------------------------------------------------
enum OpK { PUT, DEL, BATCH, GET, HAS, FLUSH, CRANGE, COMPACT, REOPEN, SNAP, RELEASE, ITER_NEW, ITER, ITER_DEL, CHECK, FILL, READS, PROP, APPROX, GETSNAP,
           REPAIR, BACKUP, BCHECK, COPY, DESTROY, LOCKPROBE, BADOPEN, FOREIGN };

// A name that is NOT one of the database's own (CURRENT, LOCK, LOG, LOG.old, MANIFEST-[0-9]+, [0-9]+.(log|sst|ldb|dbtmp))
// but is one edit away from one: the runner re-checks that with its own parser and drops anything owned.
std::string gen_foreign_name() {
  static const char *bases[] = {"CURRENT", "LOCK", "LOG", "LOG.old", "MANIFEST-000005", "000007.log", "000009.ldb", "000011.sst", "000013.dbtmp", "MANIFEST-", "12"};
  std::string b = bases[uni(0, 10)];
  if (isdigit((unsigned char)b[0]) && chance(50)) { size_t dot = b.find('.'); b = fmt("%0*d", uni(1, 7), uni(0, 99999)) + (dot == std::string::npos ? "" : b.substr(dot)); }
  static const char *suffix[] = {".1", ".old", ".bak", "~", "x", "-2", ".log", ".ldb", ".tmp", "0", "_", ".OLD", ".old.1"};
  static const char *prefix[] = {"x", "_", ".", "0x", "-", "a0", "old."};
  static const char *ext[] = {".txt", ".ldbx", ".lo", ".LOG", ".LDB", ".sstx", ".db", ".tmp", ".dbtm", ".l", ""};
  switch (uni(0, 7)) {
    case 0: case 1: b += suffix[uni(0, 12)]; break;
    case 2: b = prefix[uni(0, 6)] + b; break;
    case 3: for (auto &ch : b) ch = (char)tolower((unsigned char)ch); if (chance(50)) b += suffix[uni(0, 12)]; break;
    case 4: { size_t dot = b.rfind('.'); if (dot != std::string::npos) b = b.substr(0, dot) + ext[uni(0, 10)]; else b += ext[uni(0, 9)]; break; }
    case 5: { size_t pos = (size_t)uni(0, (int)b.size()); b.insert(pos, 1, "xA-_.~z"[uni(0, 6)]); break; }
    case 6: { size_t dot = b.rfind('.'); if (dot != std::string::npos) b.erase(dot, 1); else b += "."; break; }
    case 7: if (b.size() > 1) b.erase((size_t)uni(0, (int)b.size() - 1), 1); else b += "q"; break;
  }
  return b;
}
std::string gen_foreign_args() {
  std::string s;
  int n = uni(2, 6);
  for (int i = 0; i < n; i++) s += " t" + gen_foreign_name();
  return s;
}

std::string gen_iter_action(const Profile &p) {
  int id = (!p.iters.empty() && chance(92)) ? pick_from(p.iters) : uni(0, 3);
  int c = uni(0, 99);
  if (c < 30) return fmt("iter %d next", id);
  if (c < 58) return fmt("iter %d prev", id);
  if (c < 64) return fmt("iter %d first", id);
  if (c < 70) return fmt("iter %d last", id);
  static const char *sk[] = {"seek", "seek_ge", "seek_gt", "seek_le", "seek_lt"};
  return fmt("iter %d %s ", id, sk[uni(0, 4)]) + gen_key(p);
}

std::string gen_range_arg(const Profile &p) {
  if (chance(45)) return "-";
  if (!p.used.empty() && chance(75)) return p.used[uni(0, (int)p.used.size() - 1)];
  return gen_key(p);
}

std::string gen_op(Profile &p, const std::vector<std::pair<int, OpK>> &weights) {
  OpK k = pick<OpK>(weights);
  std::string sync = chance(12) ? " sync=1" : "";
  switch (k) {
    case PUT: return "put " + gen_key(p) + " " + gen_val(p) + sync;
    case DEL: return "del " + gen_key(p) + sync;
    case BATCH: {
      int n = pick<int>({{6, uni(1, 4)}, {3, uni(5, 12)}, {1, uni(20, 60)}, {1, 0}});   // 0: an empty batch is a legal write (a 12-byte log record)
      std::string s = "batch";
      for (int i = 0; i < n; i++) {
        if (chance(75)) s += " p:" + gen_key(p) + ":" + gen_val(p);
        else s += " d:" + gen_key(p);
      }
      return s + sync;
    }
    case GET: {
      std::string s = "get " + gen_key(p);
      if (chance(30)) s += " verify=1";
      if (chance(20)) s += " fill=0";
      return s;
    }
    case GETSNAP: {
      std::string s = fmt("get %s snap=%d", gen_key(p).c_str(), snap_ref(p));
      if (chance(30)) s += " verify=1";
      return s;
    }
    case HAS: return "has " + gen_key(p) + (chance(30) ? fmt(" snap=%d", snap_ref(p)) : "");
    case FLUSH: return "flush";
    case CRANGE: return fmt("crange %d ", pick<int>({{5, 0}, {4, 1}, {3, 2}, {2, 3}, {1, 4}, {1, 5}})) + gen_range_arg(p) + " " + gen_range_arg(p);
    case COMPACT: return "compact " + gen_range_arg(p) + " " + gen_range_arg(p);
    case REOPEN: {
      std::string s = "reopen";
      p.iters.clear();
      p.snaps.clear();
      if (chance(30)) s += fmt(" reuse=%d", uni(0, 1));
      if (chance(20)) s += " cache=" + pick<std::string>({{1, "default"}, {1, "tiny"}, {1, "zero"}});
      if (chance(25)) s += fmt(" bloom=%d", pick<int>({{2, 0}, {2, 10}, {1, 1}, {1, 4}, {2, 20}}));   // other bits per key: old filters must still be read with their own probe count
      if (chance(20)) s += fmt(" comp=%d", uni(0, 1));
      if (chance(20)) s += fmt(" mmap=%d", uni(0, 1));
      if (chance(15)) s += fmt(" bs=%d", pick<int>({{1, 1024}, {1, 4096}}));
      if (chance(15)) s += fmt(" paranoid=%d", uni(0, 1));
      // every option except the comparator may differ from one open to the next
      if (chance(10)) s += fmt(" ri=%d", pick<int>({{1, 1}, {1, 4}, {1, 16}}));
      if (chance(10)) s += fmt(" wbs=%d", pick<int>({{2, 65536}, {1, 131072}, {1, 4 << 20}}));
      if (chance(10)) s += fmt(" mfs=%d", pick<int>({{1, 1 << 20}, {1, 2 << 20}}));
      if (chance(10)) s += fmt(" mof=%d", pick<int>({{1, 1000}, {1, 74}}));
      return s;
    }
    case SNAP: { int id = fresh_id(p.snaps, 4); if (!contains(p.snaps, id)) p.snaps.push_back(id); return fmt("snap %d", id); }
    case RELEASE: {
      int id = (!p.snaps.empty() && chance(90)) ? pick_from(p.snaps) : uni(0, 4);
      erase_val(p.snaps, id);
      return fmt("release %d", id);
    }
    case ITER_NEW: {
      int id = fresh_id(p.iters, 3);
      if (!contains(p.iters, id)) p.iters.push_back(id);
      std::string s = fmt("iter_new %d", id);
      if (chance(30)) s += fmt(" snap=%d", snap_ref(p));
      if (chance(30)) s += " verify=1";
      if (chance(20)) s += " fill=0";
      // position it at once so that next/prev apply
      int c = uni(0, 99);
      if (c < 30) s += fmt("\niter %d first", id);
      else if (c < 55) s += fmt("\niter %d last", id);
      else if (c < 90) s += fmt("\niter %d %s ", id, chance(50) ? "seek" : "seek_le") + gen_key(p);
      return s;
    }
    case ITER:
      if (p.iters.empty()) { p.iters.push_back(0); return "iter_new 0"; }
      return gen_iter_action(p);
    case ITER_DEL: {
      int id = (!p.iters.empty() && chance(90)) ? pick_from(p.iters) : uni(0, 3);
      erase_val(p.iters, id);
      return fmt("iter_del %d", id);
    }
    case CHECK: return "check";
    case FILL: {
      int lo = uni(0, 40);
      int nb = pick<int>({{3, 1000}, {2, 3000}, {1, 9000}});
      int total = pick<int>({{3, 70000}, {2, 140000}, {1, 300000}});
      return fmt("fill %d %d %d %d", lo, lo + total / nb, nb, uni(1, 50));
    }
    case READS: return "reads " + gen_key(p) + fmt(" %d", uni(50, 400));
    case PROP: return "prop";
    case APPROX: return "approx " + gen_key(p) + " " + gen_key(p);
    case REPAIR: p.iters.clear(); p.snaps.clear(); return fmt("repair %d", uni(0, 5));
    case BACKUP: return "backup";
    case BCHECK: return "bcheck";
    case COPY: p.iters.clear(); p.snaps.clear(); return "copy";
    case DESTROY: p.iters.clear(); p.snaps.clear(); p.used.clear(); return "destroy" + gen_foreign_args();
    case FOREIGN: return "foreign" + gen_foreign_args();
    case LOCKPROBE: return "lockprobe";
    case BADOPEN: p.iters.clear(); p.snaps.clear(); return fmt("badopen %d", uni(0, 2));
  }
  return "check";
}

std::vector<std::pair<int, OpK>> weights_for(const std::string &kind) {
  if (kind == "C06")
    return {{26, PUT}, {10, DEL}, {6, BATCH}, {4, GET}, {16, GETSNAP}, {3, HAS}, {8, FLUSH}, {10, CRANGE}, {2, COMPACT}, {2, REOPEN},
            {9, SNAP}, {4, RELEASE}, {3, ITER_NEW}, {5, ITER}, {1, ITER_DEL}, {3, CHECK}, {1, FILL}};
  if (kind == "C07")
    return {{22, PUT}, {10, DEL}, {6, BATCH}, {3, GET}, {2, GETSNAP}, {7, FLUSH}, {7, CRANGE}, {1, COMPACT}, {2, REOPEN},
            {3, SNAP}, {1, RELEASE}, {7, ITER_NEW}, {40, ITER}, {2, ITER_DEL}, {2, CHECK}, {1, FILL}};
  if (kind == "C13")
    return {{24, PUT}, {8, DEL}, {5, BATCH}, {3, GET}, {12, FLUSH}, {12, CRANGE}, {4, COMPACT}, {6, REOPEN},
            {2, SNAP}, {1, RELEASE}, {6, ITER_NEW}, {10, ITER}, {2, ITER_DEL}, {2, CHECK}, {2, FILL}};
  if (kind == "C19")
    return {{30, PUT}, {10, DEL}, {6, BATCH}, {3, GET}, {12, FLUSH}, {14, CRANGE}, {2, COMPACT}, {2, REOPEN},
            {5, SNAP}, {1, RELEASE}, {1, ITER_NEW}, {1, ITER}, {2, CHECK}, {1, FILL}, {8, REPAIR}};
  if (kind == "C20")
    return {{30, PUT}, {8, DEL}, {6, BATCH}, {4, GET}, {8, FLUSH}, {7, CRANGE}, {1, COMPACT}, {3, REOPEN},
            {2, SNAP}, {1, RELEASE}, {2, ITER_NEW}, {3, ITER}, {1, ITER_DEL}, {2, CHECK}, {1, FILL},
            {8, BACKUP}, {3, BCHECK}, {3, COPY}, {3, DESTROY}, {4, LOCKPROBE}, {5, BADOPEN}, {3, FOREIGN}, {1, REPAIR}};
  if (kind == "C17")
    return {{26, PUT}, {8, DEL}, {6, BATCH}, {2, GET}, {12, FLUSH}, {12, CRANGE}, {3, COMPACT}, {12, REOPEN},
            {2, SNAP}, {1, RELEASE}, {1, ITER_NEW}, {1, ITER}, {1, CHECK}, {3, FILL}, {1, READS}};
  if (kind == "C15f")   // the log through the real file layer: appends of all sizes, reopen (recovery, log reuse at arbitrary offsets)
    return {{34, PUT}, {6, DEL}, {14, BATCH}, {4, GET}, {3, FLUSH}, {2, CRANGE}, {16, REOPEN}, {4, CHECK}, {2, FILL}};
  if (kind == "C14")
    return {{26, PUT}, {8, DEL}, {6, BATCH}, {3, GET}, {12, FLUSH}, {14, CRANGE}, {4, COMPACT}, {5, REOPEN},
            {3, SNAP}, {1, RELEASE}, {1, ITER_NEW}, {2, ITER}, {1, ITER_DEL}, {2, CHECK}, {3, FILL}, {2, READS}, {1, PROP}};
  // C01 and default
  return {{30, PUT}, {10, DEL}, {8, BATCH}, {12, GET}, {2, HAS}, {8, FLUSH}, {9, CRANGE}, {2, COMPACT}, {3, REOPEN},
          {2, SNAP}, {1, RELEASE}, {2, GETSNAP}, {2, ITER_NEW}, {5, ITER}, {1, ITER_DEL}, {3, CHECK}, {1, FILL}, {1, READS}, {1, PROP}, {1, APPROX}};
}

// ---- scenario skeletons (prefixes that build rare layouts cheaply) -----------
std::string new_snap(Profile &p) {
  int id = fresh_id(p.snaps, 4);
  if (!contains(p.snaps, id)) p.snaps.push_back(id);
  return fmt("snap %d", id);
}

void skeleton(Profile &p, std::vector<std::string> &out) {
  int c = uni(0, 99);
  if (const char *force = getenv("VF_GEN_SKEL")) c = atoi(force);  // experiments only
  // "grandparent overlap" (rare, expensive: ~12 MiB and ~5 s; 2 in 10 000 quick cases, 1.2 % of the long thorough cases): twelve 1 MiB tables in level 2, then a sparse table spanning all of
  // them is compacted from level 0 into level 1 -- the only way to make a compaction cut its output because it overlaps
  // more than 10 x max_file_size of the level below its target (ldb_compaction_should_stop_before)
  if (c == 1000 || ((p.kind == "C14" || p.kind == "C01" || p.kind == "C13") && uni(0, 9999) < (p.thorough ? 120 : 2))) {
    int per = pick<int>({{2, 4000}, {1, 2500}});
    int n = 12600000 / per;
    out.push_back(fmt("fill 0 %d %d %d", n, per, 2 * uni(0, 20) + 1));
    out.push_back("crange 0 - -");
    out.push_back("crange 1 - -");
    int sparse = uni(8, 14);
    for (int i = 0; i < sparse; i++) {
      int k = (int)((long)i * (n - 1) / (sparse - 1));
      out.push_back(chance(85) ? fmt("put tk%05d r%d.%d", k, uni(0, 99999), uni(1, 60)) : fmt("del tk%05d", k));
    }
    if (chance(30)) out.push_back(new_snap(p));
    out.push_back("flush");
    out.push_back("crange 0 - -");
    out.push_back("check");
    if (chance(50)) { out.push_back("crange 1 - -"); out.push_back("check"); }
    return;
  }
  if (c < 22) return;  // free-form only
  if (c < 34) {
    // a few small overlapping tables over a tiny key set, pushed to various depths, then partial-range compactions
    int nk = uni(3, 6);
    std::vector<std::string> ks;
    for (int i = 0; i < nk; i++) ks.push_back(gen_key(p));
    int nf = uni(2, 6);
    for (int f = 0; f < nf; f++) {
      int nu = uni(1, 3);
      for (int u = 0; u < nu; u++) {
        const std::string &k = ks[uni(0, nk - 1)];
        out.push_back(chance(80) ? "put " + k + " " + gen_val(p) : "del " + k);
      }
      out.push_back("flush");
      if (chance(30)) out.push_back(fmt("crange %d ", uni(0, 2)) + (chance(50) ? std::string("-") : ks[uni(0, nk - 1)]) + " " + (chance(50) ? std::string("-") : ks[uni(0, nk - 1)]));
      if (chance(15)) out.push_back("reopen");
    }
    int nc = uni(1, 3);
    for (int i = 0; i < nc; i++)
      out.push_back(fmt("crange %d ", pick<int>({{5, 0}, {3, 1}, {1, 2}})) + (chance(35) ? std::string("-") : ks[uni(0, nk - 1)]) + " " + (chance(35) ? std::string("-") : ks[uni(0, nk - 1)]));
    out.push_back("check");
    return;
  }
  if (c < 46) {
    // interval files: each table covers [lo,hi] of a small numbered key space (overlaps by construction), made by
    // flush or by reopen (recovery writes level 0), some pushed down; then partial-range compactions whose input
    // set must be expanded through overlapping files
    int space = uni(6, 12);
    int nf = uni(3, 8);
    bool dense = chance(70);
    int reopen_pct = pick<int>({{2, 100}, {2, 45}, {1, 0}});   // all tables via recovery (level 0 only) / mixed / all via flush
    for (int f = 0; f < nf; f++) {
      int lo = uni(0, space - 1), hi = uni(lo, std::min(space - 1, lo + uni(0, 5)));
      if (dense) {
        // every key of the interval is written, so overlapping tables always share user keys
        for (int k = lo; k <= hi; k++) out.push_back(chance(88) ? fmt("put tk%04d ", k) + fmt("r%d.%d", uni(0, 99999), uni(1, 40)) : fmt("del tk%04d", k));
      } else {
        out.push_back(fmt("put tk%04d ", lo) + gen_val(p));
        if (hi != lo) out.push_back(chance(85) ? fmt("put tk%04d ", hi) + gen_val(p) : fmt("del tk%04d", hi));
        if (chance(40)) { int mid = uni(lo, hi); out.push_back(chance(70) ? fmt("put tk%04d ", mid) + gen_val(p) : fmt("del tk%04d", mid)); }
      }
      if (chance(12)) out.push_back(new_snap(p));
      out.push_back(chance(reopen_pct) ? "reopen reuse=0" : "flush");
      if (out.back() != "flush") { p.iters.clear(); p.snaps.clear(); }
      if (reopen_pct != 100 && chance(10)) out.push_back(fmt("crange %d - -", uni(0, 1)));
      // level 0 is compacted automatically at 4 files: partial-range compactions must come while it holds 2-3
      if (f >= 1 && chance(40)) {
        int b = uni(0, space - 1), e = uni(b, space - 1);
        out.push_back(fmt("crange 0 %s %s", chance(20) ? "-" : fmt("tk%04d", b).c_str(), chance(30) ? "-" : fmt("tk%04d", e).c_str()));
      }
    }
    int nc = uni(1, 4);
    for (int i = 0; i < nc; i++) {
      int b = uni(0, space - 1), e = uni(b, space - 1);
      std::string bs = chance(25) ? std::string("-") : fmt("tk%04d", b), es = chance(25) ? std::string("-") : fmt("tk%04d", e);
      out.push_back(fmt("crange %d ", pick<int>({{6, 0}, {3, 1}, {1, 2}})) + bs + " " + es);
      if (chance(30)) out.push_back(fmt("compact tk%04d tk%04d", b, e));
    }
    out.push_back("check");
    p.nkeys = space;
    return;
  }
  if ((c < 50 && (p.kind == "C01" || p.kind == "C06" || p.thorough)) || (p.kind == "C14" && c < 52)) {
    // one user key whose versions (held by snapshots) are large enough to straddle two level-1 files, next to small
    // tables at levels 1 and 2, then partial-range compactions of level 1 whose input set has to be expanded
    int lo = uni(0, 2), mid = lo + uni(1, 2), hi = mid + uni(1, 2), big = hi + uni(1, 3);
    auto sv = [&]() { return fmt("r%d.%d", uni(0, 99999), uni(1, 60)); };
    out.push_back(fmt("put tk%04d ", lo) + sv());
    out.push_back(fmt("put tk%04d ", hi) + sv());
    out.push_back("flush");
    out.push_back("crange 0 - -");
    if (chance(80)) out.push_back("crange 1 - -");
    out.push_back(fmt("put tk%04d ", lo) + sv());
    if (chance(60)) out.push_back(fmt("put tk%04d ", lo + 1) + sv());
    out.push_back("flush");
    out.push_back(fmt("put tk%04d ", mid + (chance(50) ? 0 : 1)) + sv());
    out.push_back("flush");
    out.push_back(fmt("put tk%04d ", mid + (chance(50) ? 0 : 1)) + sv());
    int nv = uni(3, 4);
    for (int i = 0; i < nv; i++) {
      out.push_back(fmt("put tk%04d r%d.%d", big, uni(0, 99999), uni(380000, 540000)));
      if (i + 1 < nv) out.push_back(new_snap(p));
    }
    out.push_back("flush");
    out.push_back("crange 0 - -");
    int nc = uni(1, 3);
    for (int i = 0; i < nc; i++) {
      int b = uni(lo, hi), e = uni(b, big);
      out.push_back(fmt("crange 1 %s %s", chance(15) ? "-" : fmt("tk%04d", b).c_str(), chance(15) ? "-" : fmt("tk%04d", e).c_str()));
    }
    out.push_back(fmt("get tk%04d", big));
    out.push_back("check");
    p.nkeys = big + 2;
    return;
  }
  if (c < 56) {
    // value pushed deep, tombstone (or overwrite) flushed above it, then compact the upper level
    std::string k = gen_key(p);
    int depth = uni(0, 5);   // 5: the value ends in the last level (6)
    out.push_back("put " + k + " " + gen_val(p));
    if (chance(40)) out.push_back("put " + gen_key(p) + " " + gen_val(p));
    out.push_back("flush");
    for (int l = 0; l <= depth; l++) out.push_back(fmt("crange %d - -", l));
    if (chance(30)) out.push_back(new_snap(p));
    out.push_back(chance(65) ? "del " + k : "put " + k + " " + gen_val(p));
    out.push_back("flush");
    int up = uni(0, depth);
    for (int l = 0; l < up; l++) out.push_back(fmt("crange %d - -", l));
    out.push_back("get " + k);
    if (chance(50)) out.push_back(fmt("crange %d ", up) + gen_range_arg(p) + " " + gen_range_arg(p));
    out.push_back("get " + k);
    if (chance(35)) {
      // two reopen cycles that each write a fresh MANIFEST: the second one recovers from the first one's base record alone
      out.push_back("reopen reuse=0");
      out.push_back("get " + k);
      out.push_back("reopen reuse=0");
      out.push_back("get " + k);
      out.push_back("check");
      p.iters.clear();
      p.snaps.clear();
    }
  } else if (c < 65) {
    // several overlapping level-0 files with shadowed versions
    int n = uni(2, 6);
    std::string k = gen_key(p);
    for (int i = 0; i < n; i++) {
      out.push_back(chance(80) ? "put " + k + " " + gen_val(p) : "del " + k);
      if (chance(60)) out.push_back("put " + gen_key(p) + " " + gen_val(p));
      if (chance(25)) out.push_back(new_snap(p));
      out.push_back("flush");
    }
  } else if (c < 78) {
    // disjoint single-key tables land in level 2 and stay separate: many files
    int n = p.thorough ? uni(20, 90) : uni(4, 14);
    for (int i = 0; i < n; i++) {
      out.push_back(fmt("put tk%04d ", i) + gen_val(p));
      out.push_back("flush");
    }
    if (chance(50)) out.push_back("check");
  } else if (c < 88) {
    // same user key written under held snapshots with values big enough to split files (thorough)
    std::string k = gen_key(p);
    int n = uni(2, 5);
    for (int i = 0; i < n; i++) {
      int len = p.thorough ? uni(250000, 600000) : uni(20000, 70000);
      out.push_back(fmt("put %s r%d.%d", k.c_str(), uni(0, 99999), len));
      out.push_back(new_snap(p));
      if (chance(40)) out.push_back("flush");
    }
    out.push_back("flush");
    out.push_back("crange 0 - -");
    out.push_back("crange 1 - -");
    out.push_back("get " + k);
  } else {
    // automatic flush by volume, then reads
    out.push_back(fmt("fill %d %d %d %d", 0, uni(60, 160), pick<int>({{2, 1000}, {1, 2500}}), uni(1, 50)));
    out.push_back("check");
  }
}

std::string build_case(const std::string &kind_in) {
  Profile p;
  std::string kind = kind_in;
  size_t dash = kind.find('-');
  if (dash != std::string::npos) {
    // the thorough tier mixes many quick-profile cases with a share of long histories carrying values up to 1.2 MiB
    if (kind.substr(dash + 1) == "thorough") p.thorough = chance(30);
    kind = kind.substr(0, dash);
  }
  p.kind = kind;
  p.nkeys = pick<int>({{3, 6}, {4, 12}, {2, 40}});
  std::vector<std::string> lines;
  lines.push_back(gen_config(p));
  skeleton(p, lines);
  auto w = weights_for(kind);
  // length scales with the size parameter
  int len = *rc::gen::withSize([&](int size) { return rc::gen::just(size); });
  int nops = 4 + (p.thorough ? len * 3 : (len * 6) / 10) + uni(0, 6);
  for (int i = 0; i < nops; i++) lines.push_back(gen_op(p, w));
  std::string text;
  for (auto &l : lines) { text += l; text += "\n"; }
  return text;
}

// ---- crash / fault histories (C02 C03 C04 C05 C12 C17): writes with sync flags, structure changes, reopen ----
std::string crash_val(const Profile &p, bool c04) {
  int c = uni(0, 999);
  char kind = chance(50) ? 'r' : 'c';
  int seed = uni(0, 999999);
  int len;
  if (c < 60) len = 0;
  else if (c < 700) len = uni(1, 120);
  else if (c < 900) len = uni(500, 4000);
  else if (c < (c04 ? 940 : 985)) len = uni(8000, 20000);
  else len = uni(33000, p.thorough ? 140000 : 70000);   // spans log blocks
  if (len == 0) return "x";
  return fmt("%c%d.%d", kind, seed, len);
}

std::string build_crash_case(const std::string &kind_in) {
  Profile p;
  std::string kind = kind_in;
  size_t dash = kind.find('-');
  if (dash != std::string::npos) {
    if (kind.substr(dash + 1) == "thorough") p.thorough = true;
    kind = kind.substr(0, dash);
  }
  p.kind = kind;
  p.nkeys = pick<int>({{3, 5}, {4, 10}, {2, 30}});
  bool c04 = kind == "C04", c17 = kind == "C17", c11 = kind == "C11";
  std::vector<std::string> lines;
  {
    std::string s = "config";
    s += fmt(" wbs=%d", pick<int>({{8, 65536}, {1, 131072}}));
    s += fmt(" bs=%d", pick<int>({{2, 1024}, {3, 4096}}));
    s += fmt(" ri=%d", pick<int>({{1, 1}, {3, 16}}));
    s += fmt(" comp=%d", uni(0, 1));
    s += fmt(" bloom=%d", pick<int>({{2, 0}, {1, 10}}));
    s += fmt(" mmap=%d", uni(0, 1));
    s += fmt(" reuse=%d", uni(0, 1));
    s += fmt(" paranoid=%d", uni(0, 1));
    s += " cmp=" + pick<std::string>({{8, "bytewise"}, {1, "reverse"}, {1, "lenfirst"}});
    s += " sched=" + pick<std::string>({{3, "eager"}, {3, "starved"}, {4, "random"}});
    s += fmt(" sseed=%d", uni(1, 1000000));
    lines.push_back(s);
  }
  int len = *rc::gen::withSize([&](int size) { return rc::gen::just(size); });
  int nops = 5 + (p.thorough ? len : (len * 35) / 100) + uni(0, 5);
  int sync_pct = pick<int>({{2, 10}, {3, 35}, {1, 80}});
  if (c11) {
    // small databases with tables on >= 2 levels, shadowed versions and tombstones across files, a live log
    auto smallv = [&]() { return chance(10) ? std::string("x") : fmt("%c%d.%d", chance(50) ? 'r' : 'c', uni(0, 99999), pick<int>({{5, uni(1, 60)}, {2, uni(200, 900)}, {1, uni(1500, 4000)}})); };
    int rounds = uni(2, 4);
    for (int r = 0; r < rounds; r++) {
      int n = uni(2, 8);
      for (int i = 0; i < n; i++) {
        int c = uni(0, 9);
        if (c < 6) lines.push_back("put " + gen_key(p) + " " + smallv());
        else if (c < 8) lines.push_back("del " + gen_key(p));
        else lines.push_back("batch p:" + gen_key(p) + ":" + smallv() + " d:" + gen_key(p) + " p:" + gen_key(p) + ":" + smallv());
      }
      lines.push_back("flush");
      if (r == 0) { lines.push_back("crange 0"); if (chance(50)) lines.push_back("crange 1"); }
      if (chance(25)) lines.push_back("reopen");
    }
    int tail = uni(1, 5);
    for (int i = 0; i < tail; i++) lines.push_back(chance(80) ? "put " + gen_key(p) + " " + smallv() : "del " + gen_key(p));
    if (chance(30)) {
      // one batch whose log record spans three or more 32 KiB blocks, so that damage in the middle of a record is reachable
      std::string b = "batch";
      int n = uni(28, 60);
      for (int j = 0; j < n; j++) b += " p:" + gen_key(p) + fmt(":r%d.%d", uni(0, 99999), uni(2000, 3000));
      lines.push_back(b);
      if (chance(50)) lines.push_back("put " + gen_key(p) + " " + smallv());
    }
    std::string text;
    for (auto &l : lines) { text += l; text += "\n"; }
    return text;
  }
  if ((kind == "C03" || kind == "C13" || kind == "C05" || kind == "C02") && chance(12)) {
    // "compaction tail" skeleton: four tiny overlapping level-0 tables start a short merging compaction (its loop is a few
    // keys long, so most of its life is the tail: finishing the output, the MANIFEST append, obsolete-file removal); the
    // writer meanwhile alternates one value larger than the write buffer with a small one, so that every second write
    // switches memtables -- some of these switches land inside the tail, with an immutable memtable pending
    for (const char *other : {" sched=eager", " sched=starved"}) {
      size_t sp = lines[0].find(other);
      if (sp != std::string::npos) lines[0].replace(sp, strlen(other), " sched=random");
    }
    std::string hot = gen_key(p);
    for (int r = 0; r < 4; r++) {
      lines.push_back("put " + hot + fmt(" r%d.%d", uni(0, 99999), uni(1, 200)));
      if (chance(50)) lines.push_back("put " + gen_key(p) + fmt(" r%d.%d", uni(0, 99999), uni(1, 200)));
      lines.push_back("flush");
    }
    int pairs = uni(2, 5);
    for (int i = 0; i < pairs; i++) {
      lines.push_back("put " + gen_key(p) + fmt(" r%d.%d", uni(0, 99999), uni(66000, 72000)) + (chance(20) ? " sync=1" : ""));
      lines.push_back("put " + gen_key(p) + fmt(" r%d.%d", uni(0, 99999), uni(1, 100)));
    }
    if (nops > 10) nops = 10;
  }
  if (kind == "C12" && chance(25)) {
    // "busy compaction" skeleton: three level-0 tables, then a burst that triggers the level-0 compaction and keeps
    // overflowing the write buffer while it runs, so that memtable flushes (and their MANIFEST appends) happen inside a
    // running compaction.  Needs a schedule that interleaves the background thread with the writer.
    for (const char *other : {" sched=eager", " sched=starved"}) {
      size_t sp = lines[0].find(other);
      if (sp != std::string::npos) lines[0].replace(sp, strlen(other), " sched=random");
    }
    // few large values: the writer needs only a handful of scheduling points to fill the buffer, the compaction has many
    int nb = pick<int>({{1, 2500}, {2, 8000}, {3, 16000}});
    for (int r = 0; r < 3; r++) {
      int lo = uni(0, 30);
      lines.push_back(fmt("fill %d %d %d %d syncevery=%d", lo, lo + uni(2, 60000 / nb), nb, uni(1, 50), pick<int>({{3, 0}, {1, 4}})));
      lines.push_back("flush");
    }
    int lo = uni(0, 20);
    lines.push_back(fmt("fill %d %d %d %d syncevery=%d", lo, lo + uni(150000, 420000) / nb, nb, uni(1, 50), pick<int>({{3, 0}, {1, 5}})));
    if (nops > 12) nops = 12;
  }
  for (int i = 0; i < nops; i++) {
    int c = uni(0, 99);
    std::string sync = chance(sync_pct) ? " sync=1" : "";
    int wput = 42, wdel = 8, wbatch = c04 ? 30 : 12, wflush = 8, wcr = 6, wcomp = 1, wreopen = c17 ? 14 : 6, wfill = 3;
    int total = wput + wdel + wbatch + wflush + wcr + wcomp + wreopen + wfill;
    c = uni(0, total - 1);
    if (chance(3)) lines.push_back(std::string("emptywrite") + sync);
    if ((c -= wput) < 0) lines.push_back("put " + gen_key(p) + " " + crash_val(p, c04) + sync);
    else if ((c -= wdel) < 0) lines.push_back("del " + gen_key(p) + sync);
    else if ((c -= wbatch) < 0) {
      int n = c04 ? pick<int>({{4, uni(2, 6)}, {3, uni(7, 40)}, {1, uni(100, p.thorough ? 2000 : 400)}}) : pick<int>({{6, uni(1, 4)}, {2, uni(5, 20)}});
      std::string s = "batch";
      for (int j = 0; j < n; j++) {
        if (chance(78)) s += " p:" + gen_key(p) + ":" + (n > 50 ? fmt("r%d.%d", uni(0, 99999), uni(0, 300)) : crash_val(p, c04));
        else s += " d:" + gen_key(p);
      }
      lines.push_back(s + sync);
    }
    else if ((c -= wflush) < 0) {
      lines.push_back("flush");
      // now and then several clients write at once, so that group commit (merged batches, sync and non-sync mixed) is in the trace
      if (kind != "C12" && chance(c04 ? 45 : 25)) {
        int T = uni(2, 3);
        std::vector<int> left(T);
        int total = 0;
        for (int t = 0; t < T; t++) { left[t] = uni(1, 4); total += left[t]; }
        while (total > 0) {
          int t = uni(0, T - 1);
          if (!left[t]) continue;
          left[t]--; total--;
          std::string sy = chance(sync_pct) ? " sync=1" : "";
          if (chance(55)) lines.push_back(fmt("thread %d put ", t) + gen_key(p) + " " + crash_val(p, c04) + sy);
          else {
            int n = uni(2, c04 ? 12 : 5);
            std::string b = fmt("thread %d batch", t);
            for (int j = 0; j < n; j++) b += chance(80) ? " p:" + gen_key(p) + ":" + crash_val(p, false) : " d:" + gen_key(p);
            lines.push_back(b + sy);
          }
        }
      }
    }
    else if ((c -= wcr) < 0) lines.push_back(fmt("crange %d - -", pick<int>({{5, 0}, {3, 1}, {1, 2}})));
    else if ((c -= wcomp) < 0) lines.push_back("compact");
    else if ((c -= wreopen) < 0) {
      std::string s = "reopen";
      if (chance(40)) s += fmt(" reuse=%d", uni(0, 1));
      if (chance(15)) s += fmt(" paranoid=%d", uni(0, 1));
      lines.push_back(s);
    } else {
      int nb = pick<int>({{3, 1000}, {2, 2500}});
      int total_b = pick<int>({{3, 70000}, {1, 140000}});
      int lo = uni(0, 20);
      lines.push_back(fmt("fill %d %d %d %d syncevery=%d", lo, lo + total_b / nb, nb, uni(1, 50), pick<int>({{2, 0}, {2, 3}, {1, 10}})));
    }
  }
  std::string text;
  for (auto &l : lines) { text += l; text += "\n"; }
  return text;
}

// ---- codec cases (C15 log framing, C16 tables/snappy, C17 edits) -----------------
std::string join_ints(const std::vector<int> &v) {
  std::string s;
  for (size_t i = 0; i < v.size(); i++) s += (i ? "," : "") + std::to_string(v[i]);
  return s.empty() ? "" : s;
}

int log_len(bool thorough) {
  int c = uni(0, 99);
  const int B = 32768;
  if (c < 25) return uni(0, 40);
  if (c < 45) return uni(100, 3000);
  if (c < 70) { int k = uni(1, 3); return k * (B - 7) + uni(-16, 16); }        // around fragment capacity
  if (c < 85) { int k = uni(1, 3); return k * B + uni(-16, 16); }
  if (c < 95) return uni(B - 40, B + 40);
  return uni(0, thorough ? 1000000 : 200000);
}

std::string build_codec15(bool thorough) {
  int c = uni(0, 99);
  if (c < 12) return fmt("crc seed=%d maxlen=%d align=%d step=%d\n", uni(1, 999999), thorough ? 4096 : uni(64, 1200), uni(0, 15), thorough ? 1 : uni(1, 7));
  std::vector<int> pre, recs;
  int np = chance(50) ? 0 : uni(1, 4), nr = uni(1, 6);
  for (int i = 0; i < np; i++) pre.push_back(log_len(thorough));
  // steer the prefix so that the second writer starts near a block boundary
  if (np && chance(60)) pre.back() = 32768 - 7 + uni(-14, 14) - (np > 1 ? 0 : 0);
  for (int i = 0; i < nr; i++) recs.push_back(log_len(thorough));
  std::string s = fmt("log seed=%d", uni(1, 999999));
  if (np) s += " pre=" + join_ints(pre);
  s += " recs=" + join_ints(recs);
  int total = 0;
  for (int x : pre) total += x + 7;
  for (int x : recs) total += x + 7;
  int d = uni(0, 99);
  if (d < 35) {
    if (total < 3000) s += " cuts=all";
    else {
      std::vector<int> cuts;
      for (int i = 0; i < 40; i++) cuts.push_back(chance(50) ? uni(0, total) : (uni(0, total / 32768 + 1) * 32768 + uni(-12, 12)));
      s += " cuts=" + join_ints(cuts);
    }
  } else if (d < 85) {
    int off = chance(40) ? (uni(0, total / 32768 + 1) * 32768 + uni(0, 10)) : uni(0, total + 20);
    if (off < 0) off = 0;
    int mode = uni(0, 9);
    if (mode < 5) s += fmt(" mut=%d:1:x:%d", off, 1 << uni(0, 7));
    else if (mode < 7) s += fmt(" mut=%d:%d:s:%d", off, uni(1, 3), chance(50) ? 0 : 255);
    else if (mode < 9) s += fmt(" mut=%d:%d:x:%d", off, uni(2, 9), uni(1, 255));
    else s += fmt(" mut=%d:512:z:0", (off / 512) * 512);
  }
  return s + "\n";
}

std::string build_codec16(bool thorough) {
  int c = uni(0, 99);
  if (c < 30) {
    return fmt("snappy seed=%d len=%d mode=%s muts=%d\n", uni(1, 999999),
               pick<int>({{3, uni(0, 200)}, {3, uni(200, 5000)}, {2, uni(60000, 70000)}, {1, thorough ? uni(100000, 1200000) : uni(5000, 140000)}}),
               pick<std::string>({{1, "rand"}, {1, "text"}, {3, "mixed"}}).c_str(), uni(0, 30));
  }
  int n = pick<int>({{2, uni(0, 3)}, {4, uni(4, 60)}, {3, uni(60, 600)}, {1, thorough ? uni(5000, 50000) : uni(600, 4000)}});
  int vmax = pick<int>({{3, 0}, {4, 60}, {3, 600}, {1, 8000}, {1, n < 200 ? (thorough ? 60000 : 20000) : 100}});
  return fmt("table seed=%d n=%d cmp=%d ikeys=%d vmax=%d klen=%d prefix=%d bs=%d ri=%d comp=%d bloom=%d mmap=%d cache=%d fill=%d\n",
             uni(1, 999999), n, pick<int>({{5, 0}, {2, 1}, {2, 2}}), uni(0, 1), vmax, pick<int>({{3, 4}, {3, 16}, {1, 200}}),
             pick<int>({{4, 0}, {2, 8}, {1, 150}}), pick<int>({{2, 256}, {3, 1024}, {3, 4096}, {1, 65536}}), pick<int>({{2, 1}, {2, 2}, {4, 16}, {1, 128}}),
             uni(0, 1), pick<int>({{3, 0}, {4, 10}, {1, 1}, {1, 30}}), uni(0, 1), uni(0, 2), uni(0, 1));
}

std::string u64_boundary() {
  int c = uni(0, 99);
  if (c < 50) {
    int k = uni(0, 9);
    unsigned long long v = (k >= 9) ? 0x8000000000000000ULL : (1ULL << (7 * k));
    long d = uni(-1, 1);
    return std::to_string(v + (unsigned long long)d);
  }
  if (c < 60) return "18446744073709551615";
  if (c < 80) return std::to_string(uni(0, 1000));
  return std::to_string(((unsigned long long)uni(0, 0x7ffffffe) << 31) ^ (unsigned long long)uni(0, 0x7ffffffe));
}

std::string ikey_tok() {
  // arbitrary bytes, at least 8 long (user key + 8-byte trailer)
  int ul = pick<int>({{3, 0}, {4, uni(1, 12)}, {1, uni(100, 400)}});
  std::string s = ul ? fmt("r%d.%d+", uni(0, 99999), ul) : "";
  return s + fmt("r%d.8", uni(0, 99999));
}

std::string build_codec17(bool thorough) {
  std::string s = "edit";
  if (chance(40)) s += " cmp=" + pick<std::string>({{3, "tleveldb.BytewiseComparator"}, {1, "tvf.reverse"}, {1, "tx"}, {1, "tname_with-dash"}});
  if (chance(60)) s += " log=" + u64_boundary();
  if (chance(40)) s += " prev=" + u64_boundary();
  if (chance(60)) s += " next=" + u64_boundary();
  if (chance(60)) s += " seq=" + u64_boundary();
  int ncp = pick<int>({{5, 0}, {3, uni(1, 3)}}), nd = pick<int>({{4, 0}, {4, uni(1, 8)}, {1, thorough ? uni(500, 3000) : uni(20, 200)}}),
      na = pick<int>({{3, 0}, {5, uni(1, 8)}, {1, thorough ? uni(1000, 5000) : uni(20, 300)}});
  for (int i = 0; i < ncp; i++) s += fmt(" cp:%d:", uni(0, 6)) + ikey_tok();
  for (int i = 0; i < nd; i++) s += fmt(" del:%d:", uni(0, 6)) + u64_boundary();
  for (int i = 0; i < na; i++) s += fmt(" add:%d:", uni(0, 6)) + u64_boundary() + ":" + u64_boundary() + ":" + ikey_tok() + ":" + ikey_tok();
  if (chance(70)) s += fmt(" perm=%d", uni(1, 999999));
  return s + "\n";
}

bool is_codec_kind(const std::string &k) { return k.compare(0, 5, "codec") == 0; }

std::string build_codec_case(const std::string &kind_in) {
  bool thorough = kind_in.find("-thorough") != std::string::npos;
  std::string b = kind_in.substr(0, kind_in.find('-'));
  if (b == "codec15") return build_codec15(thorough);
  if (b == "codec16") return build_codec16(thorough);
  return build_codec17(thorough);
}

// ---- concurrent programs (C08 linearizability, C09 progress, C04 batch atomicity under concurrency) ----
std::string build_conc_case(const std::string &kind_in) {
  bool thorough = kind_in.find("-thorough") != std::string::npos;
  std::string kind = kind_in.substr(0, kind_in.find('-'));
  bool c09 = kind == "C09", c04 = kind == "C04c", c10 = kind == "C10", c20 = kind == "C20c";
  int len = *rc::gen::withSize([&](int size) { return rc::gen::just(size); });
  std::vector<std::string> lines;
  // tiny programs for bounded-exhaustive schedule enumeration (shared keys, complete linearizability search)
  if (kind == "C08" && chance(8)) {
    lines.push_back(fmt("config wbs=65536 sched=replay comp=%d", uni(0, 1)));
    lines.push_back("dfs");
    if (chance(50)) lines.push_back("put tx tinit");
    if (chance(30)) lines.push_back("flush");
    int cnt = 0;
    for (int t = 0; t < 2; t++) {
      int n = uni(1, 2);
      for (int i = 0; i < n; i++) {
        int c = uni(0, 99);
        std::string k = chance(70) ? "tx" : "ty";
        if (c < 45) lines.push_back(fmt("thread %d put %s tv%d", t, k.c_str(), ++cnt));
        else if (c < 55) lines.push_back(fmt("thread %d del %s", t, k.c_str()));
        else if (c < 65) lines.push_back(fmt("thread %d batch p:tx:tv%d p:ty:tv%d", t, cnt + 1, cnt + 1)), cnt++;
        else if (c < 85) lines.push_back(fmt("thread %d get %s", t, k.c_str()));
        else if (c < 95) lines.push_back(fmt("thread %d snapget tx ty", t));
        else lines.push_back(fmt("thread %d scan", t));
      }
    }
    std::string text;
    for (auto &l : lines) { text += l; text += "\n"; }
    return text;
  }
  std::string cfgl = "config wbs=65536";
  cfgl += fmt(" bs=%d comp=%d bloom=%d mmap=%d", pick<int>({{1, 1024}, {2, 4096}}), uni(0, 1), pick<int>({{2, 0}, {1, 10}}), uni(0, 1));
  cfgl += " sched=" + (c09 ? pick<std::string>({{3, "random"}, {3, "pct"}, {4, "starved"}, {1, "eager"}}) : pick<std::string>({{5, "random"}, {3, "pct"}, {1, "starved"}, {1, "eager"}}));
  cfgl += fmt(" pctd=%d pctlen=%d", uni(1, 3), pick<int>({{1, 500}, {2, 3000}, {1, 20000}}));
  if (chance(c09 ? 40 : 20)) cfgl += " spur=1";
  if (chance(25)) cfgl += " rsig=1";
  lines.push_back(cfgl);
  int T = std::min(thorough ? 8 : 5, 2 + len / 25 + uni(0, 1));
  if (c10) T = uni(3, thorough ? 8 : 5);
  std::vector<int> nkeys(T), counter(T, 0);
  for (int t = 0; t < T; t++) nkeys[t] = uni(1, 3);
  // setup: optionally give the threads' keys an older value that already lives in a table (so that a delete or overwrite
  // during the concurrent phase shadows on-disk data, through the memtable, the immutable memtable or a newer table)
  if (!c10 && chance(45)) {
    for (int t = 0; t < T; t++) for (int k = 0; k < nkeys[t]; k++) if (chance(75)) lines.push_back(fmt("put tT%dk%d tinitT%dk%d", t, k, t, k));
    lines.push_back("flush");
    if (chance(30)) lines.push_back("crange 0");
  }
  // setup: table-cache pressure -- many one-key tables and the smallest table cache (64 entries, 4 per shard); a share of the
  // threads' reads then goes to those keys, so that lookups keep evicting the tables other lookups are reading
  int ntables = 0;
  if ((c10 && chance(25)) || (kind == "C08" && chance(5))) {
    lines[0] += " mof=74";
    ntables = uni(70, 160);
    lines.push_back(fmt("tables %d", ntables));
  }
  // setup: now and then a database that is opened with a level-0 backlog: one large log written under a big write buffer
  // and recovered under a small one (every buffer-full of the log becomes a level-0 table during recovery)
  bool backlog = (c09 && chance(18)) || (!c09 && !c10 && chance(4));
  if (backlog) {
    size_t wp = lines[0].find("wbs=65536");
    if (wp != std::string::npos) lines[0].replace(wp, 9, "wbs=4194304");
    lines.push_back(fmt("fill 0 %d %d", uni(300, 1100), pick<int>({{2, 1000}, {1, 2000}})));
    lines.push_back(fmt("reopen wbs=65536%s", chance(50) ? " reuse=1" : ""));
  }
  // setup: optionally bring the memtable close to its limit / create level-0 pressure
  int sc = uni(0, 99);
  // "busy writers during a backup" (C20c, after seed C20e): the memtable starts close to its limit and the writers use
  // large values, so that a memtable switch, the flush, its MANIFEST append and the removal of the old log fall inside
  // the ldb_backup call of another thread
  bool c20busy = c20 && chance(45);
  if (c20busy) sc = 0;
  if (sc < (c09 ? 55 : 30)) lines.push_back(fmt("fill 0 %d 1000", uni(50, 62)));
  else if (sc < (c09 ? 80 : 40)) {
    int n = uni(3, c09 ? 11 : 6);
    for (int i = 0; i < n; i++) { lines.push_back(fmt("put tsetup%d r%d.%d", i % 3, uni(0, 9999), uni(10, 400))); lines.push_back("flush"); }
    if (chance(50)) lines.push_back(fmt("fill 0 %d 1000", uni(50, 62)));
  }
  auto anykey = [&]() { int t = uni(0, T - 1); return fmt("tT%dk%d", t, uni(0, nkeys[t] - 1)); };
  auto val = [&](int t) {
    std::string tok = fmt("tT%dc%d", t, ++counter[t]);
    int c = uni(0, 99);
    if (c20busy && c < 70) return tok + fmt("+r%d.%d", uni(0, 9999), uni(3000, 12000));
    // now and then a value above the 128 KiB by which a group commit may exceed a small leader's batch, so that
    // ldb_build_batch_group's size cap ends a group in front of a queued follower (after seed C04e)
    if ((c04 || kind == "C08") && chance(4)) return tok + fmt("+r%d.%d", uni(0, 9999), uni(70000, 150000));
    if (c < 50) return tok;
    if (c < 85) return tok + fmt("+r%d.%d", uni(0, 9999), uni(10, 1500));
    return tok + fmt("+r%d.%d", uni(0, 9999), c09 ? uni(9000, 30000) : uni(3000, 12000));
  };
  // interleave threads' lines randomly (per-thread order is what matters)
  // "gap" skeleton: the keys of the first and of the last thread each sit in their own table in level 1 and in level 2,
  // nothing in between; one thread compacts level 1 manually (several input files with a gap between them, as
  // ldb_compact issues) while a middle thread writes into the gap and flushes.
  if (T >= 3 && !c04 && chance(12)) {
    for (int t : {0, T - 1}) for (int round = 0; round < 2; round++) {
      for (int k = 0; k < nkeys[t]; k++) lines.push_back(fmt("put tT%dk%d tgapT%dk%dr%d", t, k, t, k, round));
      lines.push_back("flush");
    }
    int mid = uni(1, T - 2), comp = chance(50) ? 0 : T - 1;
    lines.push_back(fmt("thread %d crange 1", comp));
    for (int k = 0; k < nkeys[mid]; k++) lines.push_back(fmt("thread %d put tT%dk%d ", mid, mid, k) + val(mid));
    lines.push_back(fmt("thread %d flush", mid));
  }
  if (c20busy) lines.push_back(fmt("thread %d backup", uni(0, T - 1)));
  int total = 0;
  std::vector<int> left(T);
  for (int t = 0; t < T; t++) { left[t] = c10 ? uni(10, thorough ? 80 : 40) : uni(2, thorough ? 20 : 8); total += left[t]; }
  // C04/C08 small histories get a complete search: keep a share of them <= 14 operations
  while (total > 0) {
    int t = uni(0, T - 1);
    if (left[t] == 0) continue;
    left[t]--; total--;
    int c = uni(0, 99);
    std::string sync = chance(10) ? " sync=1" : "";
    if (ntables && chance(55)) { lines.push_back(fmt("thread %d get tm%04d", t, uni(0, ntables - 1))); continue; }
    int wput = c04 ? 20 : 38, wdel = 8, wbatch = (c04 || c20) ? 30 : 12, wget = c04 ? 10 : 20, wsnap = c04 ? 20 : 10, wscan = c04 ? 8 : 4, wflush = c09 ? 8 : 3, wcr = c09 ? 5 : 2, wmisc = c20 ? 14 : 3;
    int tot = wput + wdel + wbatch + wget + wsnap + wscan + wflush + wcr + wmisc;
    c = uni(0, tot - 1);
    if ((c -= wput) < 0) lines.push_back(fmt("thread %d put tT%dk%d ", t, t, uni(0, nkeys[t] - 1)) + val(t) + sync);
    else if ((c -= wdel) < 0) { ++counter[t]; lines.push_back(fmt("thread %d del tT%dk%d", t, t, uni(0, nkeys[t] - 1)) + sync); }
    else if ((c -= wbatch) < 0) {
      std::string v = val(t), s = fmt("thread %d batch", t);
      int n = uni(1, nkeys[t]);
      for (int k = 0; k < nkeys[t] && n > 0; k++) { if (chance(80)) { s += fmt(" p:tT%dk%d:", t, k) + v; n--; } else if (chance(30)) { s += fmt(" d:tT%dk%d", t, k); n--; } }
      if (s == fmt("thread %d batch", t)) s += fmt(" p:tT%dk0:", t) + v;
      lines.push_back(s + sync);
    }
    else if ((c -= wget) < 0) lines.push_back(fmt("thread %d get ", t) + anykey());
    else if ((c -= wsnap) < 0) {
      std::string s = fmt("thread %d %s", t, (!c10 && chance(30)) ? "snaphold" : "snapget");
      // whole key groups of one or two writers, so batch atomicity is observable
      int w = uni(0, T - 1);
      for (int k = 0; k < nkeys[w]; k++) s += fmt(" tT%dk%d", w, k);
      if (chance(50)) { int w2 = uni(0, T - 1); if (w2 != w) for (int k = 0; k < nkeys[w2]; k++) s += fmt(" tT%dk%d", w2, k); }
      lines.push_back(s);
    }
    else if ((c -= wscan) < 0) lines.push_back(fmt("thread %d scan", t));
    else if ((c -= wflush) < 0) lines.push_back(fmt("thread %d flush", t));
    else if ((c -= wcr) < 0) lines.push_back(fmt("thread %d crange %d", t, uni(0, 1)));
    else lines.push_back(fmt("thread %d %s", t, ((c10 && chance(25)) || (c20 && chance(85)) || (c09 && chance(20))) ? "backup" : chance(50) ? "prop" : "approx"));
  }
  std::string text;
  for (auto &l : lines) { text += l; text += "\n"; }
  return text;
}

bool is_conc_kind(const std::string &k) {
  std::string b = k.substr(0, k.find('-'));
  return b == "C08" || b == "C09" || b == "C04c" || b == "C10" || b == "C20c";
}

bool is_crash_kind(const std::string &k) {
  std::string b = k.substr(0, k.find('-'));
  return b == "C02" || b == "C03" || b == "C04" || b == "C05" || b == "C12" || b == "C17" || b == "C11";
}

}  // namespace

std::string gen_case(const char *kind, uint64_t seed, int size) {
  std::string k = kind;
  if (k.compare(0, 4, "hist") == 0) {
    std::string hk = k.substr(4);
    Gen<std::string> g4 = rc::gen::exec([hk]() { return build_case(hk); });
    return g4(rc::Random(seed), size).value();
  }
  if (is_conc_kind(k)) {
    Gen<std::string> g5 = rc::gen::exec([k]() { return build_conc_case(k); });
    return g5(rc::Random(seed), size).value();
  }
  if (is_codec_kind(k)) {
    Gen<std::string> g3 = rc::gen::exec([k]() { return build_codec_case(k); });
    return g3(rc::Random(seed), size).value();
  }
  if (is_crash_kind(k)) {
    Gen<std::string> g2 = rc::gen::exec([k]() { return build_crash_case(k); });
    return g2(rc::Random(seed), size).value();
  }
  Gen<std::string> g = rc::gen::exec([k]() { return build_case(k); });
  return g(rc::Random(seed), size).value();
}

}  // namespace vf
