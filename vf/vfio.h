// vfio — the I/O boundary of the lcdb objects (link-time --wrap of libc
// calls): pass-through with counting, recording of a totally ordered trace,
// and fault injection.  Only paths below the registered root are touched.
#ifndef VF_IO_H
#define VF_IO_H

#include <stdint.h>
#include <string>
#include <vector>

namespace vf {

enum IoKind {
  IO_OPEN = 0, IO_CLOSE, IO_READ, IO_PREAD, IO_WRITE, IO_FSYNC, IO_FDATASYNC,
  IO_RENAME, IO_UNLINK, IO_LINK, IO_MKDIR, IO_RMDIR, IO_MMAP, IO_MARK, IO_NKINDS
};

const char *io_kind_name(int k);

struct IoEvent {
  IoKind kind;
  std::string path;    // relative to root ("" = the root directory itself)
  std::string path2;   // rename/link target
  int fd = -1;
  int flags = 0;       // open flags
  std::string data;    // bytes written (IO_WRITE), marker text (IO_MARK)
  int64_t result = 0;
  int err = 0;
  int tid = -1;
  bool injected = false;
};

struct FaultPlan {
  int64_t at = -1;            // index of the eligible call to fail (0-based); -1 = none
  int err = 5;                // errno (EIO)
  bool persistent = false;    // every eligible call from `at` on fails
  bool short_write = false;   // for write: write half, then fail the continuation
  uint32_t kind_mask = 0xffffffffu;  // bit per IoKind
  std::string name_contains;  // "" = any file; else substring of relative path
};

struct IoCounters {
  uint64_t calls[IO_NKINDS] = {0};
  uint64_t eligible = 0;      // calls considered by the fault plan
  int64_t fired_at = -1;      // eligible-index of first injected failure
  uint64_t injected = 0;
  std::string fired_desc;
  std::vector<std::string> eligible_class;  // counting runs only: "<call>.<file class>" per eligible call
};

void io_set_root(const std::string &root);   // absolute directory prefix to intercept
const std::string &io_root();
void io_reset();                              // clear trace, counters, plan, fd table
void io_record(bool on, bool with_reads = false);
void io_set_fault(const FaultPlan &p);
void io_clear_fault();
// Benign perturbation (seed 0 = off): intercepted read/pread/write calls sometimes return a short count (>= 1 byte)
// or fail with EINTR before doing anything -- outcomes POSIX allows for every such call and which lcdb's own loops in
// env_unix_impl.h are written to absorb.  Deterministic: a function of the seed and a per-process call counter.
void io_set_perturb(uint64_t seed);
uint64_t io_perturbed();                       // perturbed calls since io_reset
void io_mark(const std::string &text);        // harness marker into the trace
const std::vector<IoEvent> &io_trace();
std::vector<IoEvent> &io_trace_mut();
const IoCounters &io_counters();
std::string io_event_str(const IoEvent &e, bool with_data = false);
// classify a relative file name: log, table, manifest, current, temp, lock, info, dir, other
const char *io_file_class(const std::string &rel);

}  // namespace vf

#endif
