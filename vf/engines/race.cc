// race — real-thread workloads under ThreadSanitizer / AddressSanitizer (C10).
//
// The same generated multi-threaded programs as the conc engine, but executed
// by real OS threads with no baton (serialising every access would hide races),
// with seeded delay injection at the wrapped lock / system-call sites.  The
// oracle is the sanitizer: ThreadSanitizer models lcdb's __atomic builtins with
// their stated memory order, so a relaxed store where a release is needed shows
// up as a race on the published object's fields.
#include <signal.h>
#include <stdio.h>
#include <stdlib.h>
#include <string.h>
#include <time.h>
#include <unistd.h>
#include <sched.h>

#include <atomic>
#include <thread>
#include <vector>

#include "../lc.h"
#include "../util.h"
#include "../vfio.h"
#include "../vfsched.h"

namespace vf {
std::string gen_case(const char *kind, uint64_t seed, int size);
extern std::atomic<uint64_t> g_delay_seed;   // vfsched.cc: non-zero enables delay injection in unmanaged mode
}
using namespace vf;

static double now_s() {
  struct timespec ts;
  clock_gettime(CLOCK_MONOTONIC, &ts);
  return ts.tv_sec + ts.tv_nsec * 1e-9;
}

struct Shared {
  ldb_t *db = nullptr;
  std::atomic<int> inflight{0};
  std::atomic<int> max_inflight{0};
  std::atomic<int> structural{0};
  std::string dir;
};

static void run_thread(Shared *sh, std::vector<Op> ops, int tid) {
  ldb_t *db = sh->db;
  ldb_iter_t *it = nullptr;   // one iterator per thread, used only by this thread
  std::vector<const ldb_snapshot_t *> snaps;
  for (auto &op : ops) {
    int cur = ++sh->inflight;
    int mx = sh->max_inflight.load();
    while (cur > mx && !sh->max_inflight.compare_exchange_weak(mx, cur)) {}
    const std::string &n = op.args[1];
    auto key = [&](size_t i, std::string &out) { return i < op.args.size() && expand_bytes(op.args[i], out); };
    ldb_writeopt_t wo = *ldb_writeopt_default;
    wo.sync = (int)op.geti("sync", 0);
    if (n == "put") { std::string k, v; if (key(2, k) && key(3, v)) { ldb_slice_t ks = slice_of(k), vs = slice_of(v); ldb_put(db, &ks, &vs, &wo); } }
    else if (n == "del") { std::string k; if (key(2, k)) { ldb_slice_t ks = slice_of(k); ldb_del(db, &ks, &wo); } }
    else if (n == "batch") {
      ldb_batch_t *b = ldb_batch_create();
      for (size_t i = 2; i < op.args.size(); i++) {
        const std::string &a = op.args[i];
        std::string k, v;
        if (a.compare(0, 2, "p:") == 0) { size_t c = a.find(':', 2); if (c == std::string::npos) continue; if (!expand_bytes(a.substr(2, c - 2), k) || !expand_bytes(a.substr(c + 1), v)) continue; ldb_slice_t ks = slice_of(k), vs = slice_of(v); ldb_batch_put(b, &ks, &vs); }
        else if (a.compare(0, 2, "d:") == 0) { if (!expand_bytes(a.substr(2), k)) continue; ldb_slice_t ks = slice_of(k); ldb_batch_del(b, &ks); }
      }
      ldb_write(db, b, &wo);
      ldb_batch_destroy(b);
    }
    else if (n == "get") { std::string k; if (key(2, k)) { ldb_slice_t ks = slice_of(k), v; if (ldb_get(db, &ks, &v, nullptr) == LDB_OK) ldb_free(v.data); } }
    else if (n == "snapget") {
      const ldb_snapshot_t *s = ldb_snapshot(db);
      ldb_readopt_t ro = *ldb_readopt_default;
      ro.snapshot = s;
      for (size_t i = 2; i < op.args.size(); i++) { std::string k; if (!expand_bytes(op.args[i], k)) continue; ldb_slice_t ks = slice_of(k), v; if (ldb_get(db, &ks, &v, &ro) == LDB_OK) ldb_free(v.data); }
      // keep some snapshots for a while, release others at once
      if ((tid + op.args.size()) % 3 == 0 && snaps.size() < 3) snaps.push_back(s); else ldb_release(db, s);
    }
    else if (n == "scan") {
      if (!it) it = ldb_iterator(db, nullptr);
      int steps = 0;
      for (ldb_iter_first(it); ldb_iter_valid(it) && steps < 200; ldb_iter_next(it), steps++) { ldb_slice_t k = ldb_iter_key(it), v = ldb_iter_value(it); (void)k; (void)v; }
      if (steps % 2) { for (ldb_iter_last(it); ldb_iter_valid(it) && steps < 260; ldb_iter_prev(it), steps++) {} }
      if (steps % 5 == 0) { ldb_iter_destroy(it); it = nullptr; }
    }
    else if (n == "flush") { ldb_test_compact_memtable(db); sh->structural++; }
    else if (n == "crange") { ldb_test_compact_range(db, op.args.size() > 2 ? atoi(op.args[2].c_str()) % 6 : 0, nullptr, nullptr); sh->structural++; }
    else if (n == "compact") { ldb_compact(db, nullptr, nullptr); sh->structural++; }
    else if (n == "prop") { char *v = nullptr; const char *names[] = {"leveldb.stats", "leveldb.sstables", "leveldb.approximate-memory-usage", "leveldb.num-files-at-level0"}; for (const char *pn : names) if (ldb_property(db, pn, &v) && v) ldb_free(v); }
    else if (n == "approx") { ldb_range_t r; std::string a = "a", z = "z"; r.start = slice_of(a); r.limit = slice_of(z); ldb_uint64_t sz; ldb_approximate_sizes(db, &r, 1, &sz); }
    else if (n == "backup") { std::string p = sh->dir + sfmt(".bak%d", tid); rm_rf(p); ldb_backup(db, p.c_str()); rm_rf(p); sh->structural++; }
    --sh->inflight;
  }
  if (it) ldb_iter_destroy(it);
  for (auto s : snaps) ldb_release(db, s);
}

static bool run_case(const Case &c, Report *rep, uint64_t delay_seed) {
  DbConfig cfg;
  std::vector<Op> setup;
  std::map<int, std::vector<Op>> prog;
  for (auto &op : c.ops) {
    if (op.name == "config") cfg.apply(op);
    else if (op.name == "thread") { if (op.args.size() >= 2) prog[atoi(op.args[0].c_str())].push_back(op); }
    else setup.push_back(op);
  }
  static int seq = 0;
  Shared sh;
  sh.dir = scratch_root() + sfmt("/race%d", seq++);
  rm_rf(sh.dir);
  io_reset();
  io_set_root(sh.dir);
  DbOptions opts;
  opts.build(cfg);
  if (ldb_open(sh.dir.c_str(), &opts.opt, &sh.db) != LDB_OK) { printf("FAIL property=C10 msg=ldb_open failed\n"); return false; }
  for (auto &op : setup) {
    const std::string &n = op.name;
    if (n == "put") { std::string k, v; if (op.args.size() >= 2 && expand_bytes(op.args[0], k) && expand_bytes(op.args[1], v)) { ldb_slice_t ks = slice_of(k), vs = slice_of(v); ldb_put(sh.db, &ks, &vs, nullptr); } }
    else if (n == "fill") { long lo = op.args.size() > 0 ? atol(op.args[0].c_str()) : 0, hi = op.args.size() > 1 ? atol(op.args[1].c_str()) : lo + 10, nb = op.args.size() > 2 ? atol(op.args[2].c_str()) : 1000; for (long k = lo; k < hi && k < lo + 3000; k++) { std::string key = sfmt("f%05ld", k), v; expand_bytes(sfmt("r%ld.%ld", k, nb), v); ldb_slice_t ks = slice_of(key), vs = slice_of(v); ldb_put(sh.db, &ks, &vs, nullptr); } }
    else if (n == "flush") ldb_test_compact_memtable(sh.db);
    else if (n == "crange") ldb_test_compact_range(sh.db, op.args.size() ? atoi(op.args[0].c_str()) % 6 : 0, nullptr, nullptr);
    else if (n == "tables") {
      // many small tables with disjoint keys (each flush lands below level 0 and stays a file of its own): with the minimum
      // max_open_files the table cache holds 4 entries per shard, so concurrent lookups evict each other's tables
      long cnt = op.args.size() ? atol(op.args[0].c_str()) : 80;
      for (long i = 0; i < cnt && i < 400; i++) { std::string key = sfmt("m%04ld", i), v = sfmt("tbl%04ld", i); ldb_slice_t ks = slice_of(key), vs = slice_of(v); ldb_put(sh.db, &ks, &vs, nullptr); ldb_test_compact_memtable(sh.db); }
    }
  }
  g_delay_seed = delay_seed;
  std::vector<std::thread> ths;
  for (auto &p : prog) ths.emplace_back(run_thread, &sh, p.second, p.first);
  for (auto &t : ths) t.join();
  g_delay_seed = 0;
  ldb_close(sh.db);   // close after join
  opts.clear();
  rm_rf(sh.dir);
  rep->count("runs");
  if (sh.max_inflight.load() >= 2) rep->count("class.concurrent_calls_in_flight");
  if (sh.structural.load() > 0) rep->count("class.flush_or_compaction");
  return sh.max_inflight.load() >= 2 && sh.structural.load() > 0;
}

int main(int argc, char **argv) {
  std::string replay, kind = "C10", out = "";
  uint64_t seed = 1;
  long count = 10;
  double budget = 1e9;
  int maxsize = 100, worker = 0;
  for (int i = 1; i < argc; i++) {
    std::string a = argv[i];
    auto next = [&]() -> std::string { return (i + 1 < argc) ? argv[++i] : ""; };
    if (a == "--replay") replay = next();
    else if (a == "--kind") kind = next();
    else if (a == "--seed") seed = strtoull(next().c_str(), nullptr, 10);
    else if (a == "--count") count = atol(next().c_str());
    else if (a == "--worker") worker = atoi(next().c_str());
    else if (a == "--out") out = next();
    else if (a == "--budget") budget = atof(next().c_str());
    else if (a == "--maxsize") maxsize = atoi(next().c_str());
    else if (a == "--known") next();
  }
  signal(SIGPIPE, SIG_IGN);
  setvbuf(stdout, nullptr, _IOLBF, 0);
  Report rep;
  bool thorough = kind.find("-thorough") != std::string::npos;
  if (!replay.empty()) {
    std::string text;
    if (!read_file(replay, text)) { fprintf(stderr, "cannot read %s\n", replay.c_str()); return 2; }
    Case c = parse_case(text);
    // a race needs the right timing: repeat the program with different injected delays
    for (int r = 0; r < 12; r++) run_case(c, &rep, 1000 + r);
    printf("PASS\n");
    scratch_cleanup();
    return 0;
  }
  double t0 = now_s();
  for (long i = 0; i < count; i++) {
    if (now_s() - t0 > budget) { rep.count("budget_exhausted"); break; }
    uint64_t cs = seed * 1000003ULL + (uint64_t)worker * 7919ULL + (uint64_t)i;
    int size = 30 + (int)((i * 7) % (maxsize - 29));
    std::string text = gen_case(kind.c_str(), cs, size);
    if (!out.empty()) write_file(out + sfmt("/w%d.current.case", worker), text);
    Case c = parse_case(text);
    int reps = thorough ? 6 : 3;
    for (int r = 0; r < reps; r++) {
      bool nt = run_case(c, &rep, cs * 31 + r + 1);
      rep.count("cases");
      if (nt) rep.fp("C10.nt", fnv1a(text) * 31 + r);
    }
    if (i < 2) rep.sample(text.size() > 1500 ? text.substr(0, 1500) + "...\n" : text);
  }
  if (!out.empty()) {
    unlink((out + sfmt("/w%d.current.case", worker)).c_str());
    write_file(out + sfmt("/w%d.json", worker), rep.json());
  }
  scratch_cleanup();
  return 0;
}
