// hist — single-client history engine (C01, C06, C07, C13, C14).
//
// Interprets a case against the real lcdb (public API + the two test entry
// points) and against the reference model, on the deterministic scheduler, with
// the I/O layer recording directory operations.  Every comparison is tagged
// with the property it decides.
#include <assert.h>
#include <signal.h>
#include <stdio.h>
#include <stdlib.h>
#include <string.h>
#include <time.h>
#include <unistd.h>

#include <functional>
#include <set>

#include "../hist_core.h"

using namespace vf;

static std::set<std::string> g_known;
static std::string g_casefile_dir;
static std::string g_current_text;

static void fatal_hook(const char *why) {
  // scheduler found a deadlock / step limit: leave the case behind
  if (!g_casefile_dir.empty()) write_file(g_casefile_dir + "/failing.case", g_current_text);
  printf("FAIL property=C09 msg=%s\n", why);
  fflush(stdout);
}

static double now_s() {
  struct timespec ts;
  clock_gettime(CLOCK_MONOTONIC, &ts);
  return ts.tv_sec + ts.tv_nsec * 1e-9;
}

int main(int argc, char **argv) {
  std::string replay, kind = "C01", out = "";
  uint64_t seed = 1;
  long count = 100;
  int worker = 0;
  double budget = 1e9;
  int maxsize = 100;
  bool verbose = false;
  for (int i = 1; i < argc; i++) {
    std::string a = argv[i];
    auto next = [&]() -> std::string { return (i + 1 < argc) ? argv[++i] : ""; };
    if (a == "--replay") replay = next();
    else if (a == "--kind") kind = next();
    else if (a == "--seed") seed = strtoull(next().c_str(), nullptr, 10);
    else if (a == "--count") count = atol(next().c_str());
    else if (a == "--worker") worker = atoi(next().c_str());
    else if (a == "--out") out = next();
    else if (a == "--budget") budget = atof(next().c_str());
    else if (a == "--maxsize") maxsize = atoi(next().c_str());
    else if (a == "--known") { std::string k = next(); size_t p = 0; while (p <= k.size()) { size_t q = k.find(',', p); if (q == std::string::npos) q = k.size(); if (q > p) g_known.insert(k.substr(p, q - p)); p = q + 1; } }
    else if (a == "-v") verbose = true;
  }
  // helper mode for the cross-process lock probe (C20): try to open an existing database, report through the exit code
  for (int i = 1; i + 1 < argc; i++) {
    if (std::string(argv[i]) == "--locktest") {
      // take and release the directory's LOCK the way lcdb does, without opening the database
      std::string lockname = std::string(argv[i + 1]) + "/LOCK";
      ldb_filelock_t *lk = nullptr;
      int lrc = ldb_lock_file(lockname.c_str(), &lk);
      if (lrc == LDB_OK) { ldb_unlock_file(lk); _exit(7); }
      _exit(0);
    }
    if (std::string(argv[i]) == "--lockprobe") {
      DbConfig pc;
      for (int j = 1; j + 1 < argc; j++) if (std::string(argv[j]) == "--cmp") pc.cmp = argv[j + 1];
      DbOptions po;
      po.build(pc);
      po.opt.create_if_missing = 0;
      ldb_t *pdb = nullptr;
      int prc = ldb_open(argv[i + 1], &po.opt, &pdb);
      _exit(prc == LDB_OK ? 7 : 0);
    }
  }
  signal(SIGPIPE, SIG_IGN);
  setvbuf(stdout, nullptr, _IOLBF, 0);
  sched_set_fatal_hook(fatal_hook);
  Report rep;
  int rc = 0;

  if (!replay.empty()) {
    std::string text;
    if (!read_file(replay, text)) { fprintf(stderr, "cannot read %s\n", replay.c_str()); return 2; }
    g_current_text = text;
    HistRunner r(&rep);
    r.known = g_known;
    r.verbose = verbose;
    Case c = parse_case(text);
    Failure f;
    if (!r.run(c, &f)) {
      std::string pr = f.prop, sg;
      if (pr.find(':') != std::string::npos) { sg = " sig=" + pr.substr(pr.find(':') + 1); pr = pr.substr(0, pr.find(':')); }
      printf("FAIL property=%s op=%d%s msg=%s\n", pr.c_str(), f.op_index, sg.c_str(), f.msg.c_str());
      rc = 3;
    } else {
      printf("PASS ops=%zu\n", c.ops.size());
    }
    if (!out.empty()) write_file(out + sfmt("/w%d.json", worker), rep.json());
    scratch_cleanup();
    return rc;
  }

  g_casefile_dir = out;
  double t0 = now_s();
  long done = 0;
  for (long i = 0; i < count; i++) {
    if (now_s() - t0 > budget) { rep.count("budget_exhausted"); break; }
    uint64_t cs = seed * 1000003ULL + (uint64_t)worker * 7919ULL + (uint64_t)i;
    int size = (int)(i % (maxsize + 1));
    std::string text = gen_case(kind.c_str(), cs, size);
    g_current_text = text;
    if (!out.empty()) write_file(out + sfmt("/w%d.current.case", worker), text);
    Case c = parse_case(text);
    HistRunner r(&rep);
    r.known = g_known;
    Failure f;
    bool ok = r.run(c, &f);
    done++;
    rep.count("cases");
    if (!ok) {
      std::string fn = out.empty() ? std::string("failing.case") : out + sfmt("/w%d.failing.case", worker);
      write_file(fn, text);
      std::string pr = f.prop, sg;
      if (pr.find(':') != std::string::npos) { sg = " sig=" + pr.substr(pr.find(':') + 1); pr = pr.substr(0, pr.find(':')); }
      printf("FAIL property=%s op=%d case=%s%s msg=%s\n", pr.c_str(), f.op_index, fn.c_str(), sg.c_str(), f.msg.c_str());
      rc = 3;
      break;
    }
    if (i < 2 || (i % 97) == 0) rep.sample(text.size() > 1500 ? text.substr(0, 1500) + "...\n" : text);
  }
  if (!out.empty()) {
    unlink((out + sfmt("/w%d.current.case", worker)).c_str());
    write_file(out + sfmt("/w%d.json", worker), rep.json());
  }
  scratch_cleanup();
  return rc;
}
