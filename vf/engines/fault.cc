// fault — I/O fault injection over generated histories (C12).
//
// For every generated history the fault-free run is counted first (number of
// intercepted calls eligible for the plan), then the history is re-executed
// once per chosen failure site: the k-th eligible call fails with the chosen
// errno, one-shot or persistently, optionally as a short write.  Oracles: no
// sanitizer report / abort / deadlock; a write during which a log-file
// write or sync failed does not return OK; reads return a value consistent
// with the acknowledged (and possibly the failed) writes or an error; after the
// fault is cleared, both the cleanly closed database and the process-kill image
// taken before close reopen and hold every acknowledged batch, whole.
#include <signal.h>
#include <stdio.h>
#include <stdlib.h>
#include <string.h>
#include <time.h>
#include <unistd.h>
#include <errno.h>

#include <set>

#include "../lc.h"
#include "../util.h"
#include "../vfio.h"
#include "../vfsched.h"

namespace vf {
std::string gen_case(const char *kind, uint64_t seed, int size);
}
using namespace vf;

struct Violation { std::string prop, msg; };
#define VF_FAIL(prop, ...) throw Violation{prop, sfmt(__VA_ARGS__)}

static std::string g_out_dir, g_current_text;
static int g_worker = 0;
static void fatal_hook(const char *why) {
  if (!g_out_dir.empty()) write_file(g_out_dir + sfmt("/w%d.failing.case", g_worker), g_current_text);
  printf("FAIL property=C09 msg=%s (under fault injection)\n", why);
  fflush(stdout);
}

static double now_s() {
  struct timespec ts;
  clock_gettime(CLOCK_MONOTONIC, &ts);
  return ts.tv_sec + ts.tv_nsec * 1e-9;
}

struct Update { bool put; std::string key, value; };
struct WriteRec { int idx; std::vector<Update> ups; bool sync; int rc; };

static std::string marker_key(int idx, char which) { return std::string("\0M", 2) + sfmt("%06d%c", idx, which); }
static bool parse_marker(const std::string &k, int *idx, char *which) {
  if (k.size() != 9 || k[0] != 0 || k[1] != 'M') return false;
  *idx = atoi(k.substr(2, 6).c_str());
  *which = k[8];
  return true;
}

static void copy_dir(const std::string &from, const std::string &to) {
  mkdir(to.c_str(), 0755);
  for (auto &n : list_dir(from)) {
    if (n == "LOCK" || n == "LOG" || n == "LOG.old") continue;
    std::string bytes;
    if (read_file(from + "/" + n, bytes)) write_file(to + "/" + n, bytes);
  }
}

class FaultRunner {
 public:
  explicit FaultRunner(Report *r) : rep(r) {}
  Report *rep;
  DbConfig cfg;
  SchedConfig scfg;
  std::string dir, img;
  std::vector<WriteRec> writes;
  bool fault_seen = false;   // at least one injected failure so far
  bool surfaced = false;     // some API call returned an error status after the injected failure
  uint64_t eligible_total = 0;
  std::vector<std::string> eligible_class;

  void sched_cfg(const Op &op) {
    std::string s = op.get("sched", "eager");
    if (s == "starved") scfg.strategy = ST_STARVED;
    else if (s == "random") scfg.strategy = ST_RANDOM;
    else scfg.strategy = ST_EAGER;
    scfg.seed = (uint64_t)op.geti("sseed", 1);
    scfg.step_limit = 20000000;
  }

  bool fired() { return io_counters().injected > 0; }

  // values a read of `key` may legitimately return: fold over acknowledged writes, each failed write optionally applied
  // (tracked as a set of candidate states per key; "" + present flag)
  struct Cand { std::set<std::string> vals; bool may_absent = true; };
  std::map<std::string, Cand> cand;

  void apply_write(const WriteRec &w) {
    // last update per key within the batch wins
    std::map<std::string, const Update *> last;
    for (auto &u : w.ups) last[u.key] = &u;
    for (auto &p : last) {
      Cand &c = cand[p.first];
      if (w.rc == LDB_OK) { c.vals.clear(); c.may_absent = false; }
      if (p.second->put) c.vals.insert(p.second->value); else c.may_absent = true;
    }
  }

  void check_read(ldb_t *db, const std::string &k) {
    ldb_slice_t ks = slice_of(k), val;
    sched_call_begin();
    int rc = ldb_get(db, &ks, &val, nullptr);
    sched_call_end();
    rep->count("reads");
    auto it = cand.find(k);
    if (rc == LDB_OK) {
      std::string got = str_of(val);
      ldb_free(val.data);
      if (it == cand.end() || !it->second.vals.count(got))
        VF_FAIL("C12", "get(%s) returns a value (len %zu) that no acknowledged or failed write produced", lit_token(k).substr(0, 40).c_str(), got.size());
    } else if (rc == LDB_NOTFOUND) {
      if (it != cand.end() && !it->second.may_absent)
        VF_FAIL("C12", "get(%s) returns NOTFOUND although an acknowledged write stored a value%s", lit_token(k).substr(0, 40).c_str(), fired() ? " (after the injected failure)" : "");
    } else {
      if (!fired()) VF_FAIL("C12", "get(%s) returns error %d before any failure was injected", lit_token(k).substr(0, 40).c_str(), rc);
      rep->count("reads_returning_error_after_fault");
      surfaced = true;
    }
  }

  struct Recovered { std::map<std::string, std::string> user; std::set<int> T; };
  Recovered read_back(ldb_t *db, const std::string &what) {
    Recovered r;
    std::map<int, int> marks;
    ldb_iter_t *it = ldb_iterator(db, nullptr);
    for (ldb_iter_first(it); ldb_iter_valid(it); ldb_iter_next(it)) {
      std::string k = str_of(ldb_iter_key(it)), v = str_of(ldb_iter_value(it));
      int idx; char which;
      if (parse_marker(k, &idx, &which)) {
        if (idx < 0 || idx >= (int)writes.size()) { ldb_iter_destroy(it); VF_FAIL("C12", "%s: unknown marker", what.c_str()); }
        marks[idx] |= (which == 'a') ? 1 : 2;
      } else r.user[k] = v;
    }
    int st = ldb_iter_status(it);
    ldb_iter_destroy(it);
    if (st != LDB_OK) VF_FAIL("C12", "%s: scan ends with status %d after the fault was cleared", what.c_str(), st);
    for (auto &m : marks) {
      if (m.second != 3) VF_FAIL("C12", "%s: batch %d is partially applied", what.c_str(), m.first);
      r.T.insert(m.first);
    }
    return r;
  }

  void verify_reopened(const std::string &path, const DbConfig &c, const std::string &what) {
    DbOptions opts;
    opts.build(c);
    ldb_t *db = nullptr;
    sched_call_begin();
    int rc = ldb_open(path.c_str(), &opts.opt, &db);
    sched_call_end();
    if (rc != LDB_OK && getenv("VF_KEEP")) { std::string cmd = "rm -rf /tmp/vf-keep-fault; cp -r " + path + " /tmp/vf-keep-fault"; if (system(cmd.c_str())) {} }
    if (rc != LDB_OK) VF_FAIL("C12", "%s: ldb_open fails with rc=%d after the fault has cleared", what.c_str(), rc);
    try {
      Recovered r = read_back(db, what);
      for (auto &w : writes) {
        if (w.rc == LDB_OK && !r.T.count(w.idx))
          VF_FAIL("C12", "%s: batch %d returned OK (%s) but is missing after reopen; injected failure: %s", what.c_str(), w.idx, w.sync ? "sync" : "non-sync",
                  io_counters_desc.c_str());
      }
      std::map<std::string, std::string> want;
      for (int i : r.T) for (auto &u : writes[i].ups) { if (u.put) want[u.key] = u.value; else want.erase(u.key); }
      for (auto &p : want) {
        auto it = r.user.find(p.first);
        if (it == r.user.end() || it->second != p.second)
          VF_FAIL("C12", "%s: key %s does not hold the newest value among the surviving batches; injected failure: %s", what.c_str(), lit_token(p.first).substr(0, 40).c_str(), io_counters_desc.c_str());
      }
      for (auto &p : r.user) if (!want.count(p.first) && p.first != "zz-probe-after-fault" && p.first != "zz-after-fault") VF_FAIL("C12", "%s: key %s present but deleted or never written", what.c_str(), lit_token(p.first).substr(0, 40).c_str());
      // the database must be writable again
      std::string k = "zz-after-fault", v = "ok";
      ldb_slice_t ks = slice_of(k), vs = slice_of(v);
      sched_call_begin();
      rc = ldb_put(db, &ks, &vs, nullptr);
      sched_call_end();
      if (rc != LDB_OK) VF_FAIL("C12", "%s: a write after reopening with the fault cleared fails rc=%d", what.c_str(), rc);
    } catch (...) {
      sched_call_begin(); ldb_close(db); sched_call_end();
      throw;
    }
    sched_call_begin();
    ldb_close(db);
    sched_call_end();
  }
  std::string io_counters_desc;

  // returns number of eligible calls seen (for the counting run) ; plan.at<0 => fault-free
  void run_once(const Case &c, const FaultPlan &plan) {
    writes.clear();
    cand.clear();
    surfaced = false;
    probed = false;
    for (auto &op : c.ops)
      if (op.name == "config") { cfg = DbConfig(); cfg.apply(op); sched_cfg(op); break; }
    static int seq = 0;
    dir = scratch_root() + sfmt("/flt%d", seq);
    img = scratch_root() + sfmt("/fimg%d", seq++);
    rm_rf(dir);
    rm_rf(img);
    io_reset();
    io_set_root(dir);
    io_set_fault(plan);
    sched_begin(scfg);
    DbOptions opts;
    opts.build(cfg);
    ldb_t *db = nullptr;
    sched_call_begin();
    int rc = ldb_open(dir.c_str(), &opts.opt, &db);
    sched_call_end();
    if (rc != LDB_OK) {
      db = nullptr;
      if (!fired()) VF_FAIL("C12", "ldb_open fails rc=%d before any failure was injected", rc);
      surfaced = true;
      rep->count("open_failed_under_fault");
    }
    for (int i = 0; i < (int)c.ops.size(); i++) {
      const Op &op = c.ops[i];
      const std::string &n = op.name;
      if (getenv("VF_TRACE")) fprintf(stderr, "op %d %s fired=%d surfaced=%d\n", i, op.str().substr(0, 60).c_str(), (int)fired(), (int)surfaced);
      if (n == "reopen") {
        surfacing_probe(db, plan);
        {
          bool before = fired();
          if (db) { sched_call_begin(); ldb_close(db); sched_call_end(); db = nullptr; }
          sched_quiesce();
          // a failure that hits the background compaction which ldb_close is waiting for has no call left to report to
          if (!before && fired()) { surfaced = true; rep->count("fault_fired_inside_close"); }
        }
        sched_quiesce();
        std::string keep = cfg.cmp;
        cfg.apply(op);
        cfg.cmp = keep;
        opts.build(cfg);
        sched_call_begin();
        rc = ldb_open(dir.c_str(), &opts.opt, &db);
        sched_call_end();
        if (rc != LDB_OK) {
          db = nullptr;
          if (!fired()) VF_FAIL("C12", "reopen fails rc=%d before any failure was injected", rc);
          surfaced = true;
          rep->count("open_failed_under_fault");
        }
        continue;
      }
      if (!db) continue;
      if (n == "put" || n == "del" || n == "batch" || n == "fill") {
        std::vector<WriteRec> ws;
        if (n == "fill") {
          long lo = op.args.size() > 0 ? atol(op.args[0].c_str()) : 0, hi = op.args.size() > 1 ? atol(op.args[1].c_str()) : lo + 10;
          long nb = op.args.size() > 2 ? atol(op.args[2].c_str()) : 1000, sd = op.args.size() > 3 ? atol(op.args[3].c_str()) : 1;
          long every = op.geti("syncevery", 0);
          if (hi - lo > 2000) hi = lo + 2000;
          for (long k = lo; k < hi; k++) {
            WriteRec w; w.sync = every > 0 && (k % every) == 0;
            Update u; u.put = true; u.key = sfmt("k%05ld", k);
            expand_bytes(sfmt("%c%ld.%ld", (sd & 1) ? 'r' : 'c', sd * 100003 + k, nb), u.value);
            w.ups.push_back(u);
            ws.push_back(w);
          }
        } else {
          WriteRec w; w.sync = op.geti("sync", 0) != 0;
          if (n == "put") { Update u; u.put = true; if (op.args.size() >= 2 && expand_bytes(op.args[0], u.key) && expand_bytes(op.args[1], u.value)) w.ups.push_back(u); }
          else if (n == "del") { Update u; u.put = false; if (op.args.size() >= 1 && expand_bytes(op.args[0], u.key)) w.ups.push_back(u); }
          else for (auto &a : op.args) {
            Update u;
            if (a.compare(0, 2, "p:") == 0) { size_t cp = a.find(':', 2); if (cp == std::string::npos) continue; u.put = true; if (!expand_bytes(a.substr(2, cp - 2), u.key) || !expand_bytes(a.substr(cp + 1), u.value)) continue; w.ups.push_back(u); }
            else if (a.compare(0, 2, "d:") == 0) { u.put = false; if (!expand_bytes(a.substr(2), u.key)) continue; w.ups.push_back(u); }
          }
          bool clash = false;
          for (auto &u : w.ups) if (u.key.size() >= 2 && u.key[0] == 0 && u.key[1] == 'M') clash = true;
          if (clash) continue;
          ws.push_back(w);
        }
        for (auto &w : ws) {
          w.idx = (int)writes.size();
          ldb_batch_t *b = ldb_batch_create();
          std::string mk = marker_key(w.idx, 'a'), mv = sfmt("%d", w.idx), mz = marker_key(w.idx, 'z');
          ldb_slice_t ka = slice_of(mk), va = slice_of(mv), kz = slice_of(mz);
          ldb_batch_put(b, &ka, &va);
          for (auto &u : w.ups) { ldb_slice_t k2 = slice_of(u.key), v2 = slice_of(u.value); if (u.put) ldb_batch_put(b, &k2, &v2); else ldb_batch_del(b, &k2); }
          ldb_batch_put(b, &kz, &va);
          ldb_writeopt_t wo = *ldb_writeopt_default;
          wo.sync = w.sync;
          uint64_t inj_before = io_counters().injected;
          sched_call_begin();
          w.rc = ldb_write(db, b, &wo);
          sched_call_end();
          ldb_batch_destroy(b);
          uint64_t inj_after = io_counters().injected;
          if (w.rc != LDB_OK && !fired()) VF_FAIL("C12", "write returns rc=%d before any failure was injected", w.rc);
          if (w.rc != LDB_OK) surfaced = true;
          // a failure injected into a log-file write or sync while this call was in progress must surface in its status
          if (w.rc == LDB_OK && inj_after > inj_before && scfg.strategy != ST_RANDOM && last_fault_on_log_write())
            VF_FAIL("C12", "write %d returned OK although a %s failed during the call", w.idx, io_counters().fired_desc.c_str());
          writes.push_back(w);
          apply_write(w);
          if (w.rc == LDB_OK) rep->count("writes_ok"); else rep->count("writes_failed");
          if (w.rc == LDB_OK && fired()) rep->count("writes_ok_after_fault");
          for (auto &u : w.ups) { check_read(db, u.key); if (w.ups.size() > 6) break; }
        }
      } else if (n == "flush") {
        sched_call_begin();
        int r2 = ldb_test_compact_memtable(db);
        sched_call_end();
        if (r2 != LDB_OK && !fired()) VF_FAIL("C12", "flush fails rc=%d before any failure was injected", r2);
        if (r2 != LDB_OK) surfaced = true;
      } else if (n == "crange") {
        int level = op.args.size() > 0 ? atoi(op.args[0].c_str()) : 0;
        if (level < 0 || level > 5) continue;
        sched_call_begin();
        ldb_test_compact_range(db, level, nullptr, nullptr);
        sched_call_end();
      } else if (n == "compact") {
        sched_call_begin();
        ldb_compact(db, nullptr, nullptr);
        sched_call_end();
      }
    }
    // a sample of reads at the end, still under the fault
    if (db) { int cnt = 0; for (auto &p : cand) { check_read(db, p.first); if (++cnt > 30) break; } }
    surfacing_probe(db, plan);
    eligible_total = io_counters().eligible;
    eligible_class = io_counters().eligible_class;
    io_counters_desc = fired() ? sfmt("%s (eligible call #%lld, errno %d%s)", io_counters().fired_desc.c_str(), (long long)io_counters().fired_at, plan.err,
                                      plan.persistent ? ", persistent" : plan.short_write ? ", short write" : ", one-shot")
                               : std::string("none reached");
    bool reached = fired();
    long ok_after = 0;
    // ---- fault cleared
    io_clear_fault();
    copy_dir(dir, img);   // process-kill image: what the files hold now, user-space buffers lost
    if (db) { sched_call_begin(); ldb_close(db); sched_call_end(); db = nullptr; }
    sched_quiesce();
    opts.clear();
    if (plan.at < 0) {
      // classification of the history from lcdb's info log: did a memtable flush run inside a compaction (the only way two
      // MANIFEST appends can follow each other with a background error in between)?
      bool in_comp = false, nested = false;
      for (const char *nm : {"/LOG.old", "/LOG"}) {
        std::string lg;
        if (!read_file(dir + nm, lg)) continue;
        size_t pos = 0;
        in_comp = false;
        while (pos < lg.size()) {
          size_t e = lg.find('\n', pos);
          if (e == std::string::npos) e = lg.size();
          std::string ln = lg.substr(pos, e - pos);
          pos = e + 1;
          if (getenv("VF_TRACE") && (ln.find("ompact") != std::string::npos || ln.find("Level-0") != std::string::npos)) fprintf(stderr, "LOG: %s\n", ln.c_str());
          if (ln.find("Compacting ") != std::string::npos) in_comp = true;
          else if (ln.find("Compacted ") != std::string::npos || ln.find("Recovering log") != std::string::npos) in_comp = false;
          else if (in_comp && ln.find("Level-0 table #") != std::string::npos && ln.find("started") != std::string::npos) nested = true;
        }
      }
      if (nested) rep->count("class.history_with_flush_inside_compaction");
    }
    if (plan.at >= 0) {
      verify_reopened(dir, cfg, "after close and reopen");
      io_set_root(img);
      verify_reopened(img, cfg, "after kill (files as written) and reopen");
    }
    int blocked = sched_end();
    if (blocked) VF_FAIL("C09", "%d thread(s) blocked after close (fault injection run)", blocked);
    for (auto &w : writes) if (w.rc == LDB_OK) ok_after++;
    if (plan.at >= 0) {
      rep->count("fault_runs");
      if (reached) rep->count("fault_runs_reached");
      if (reached) rep->count(std::string("site.") + io_counters_site);
    }
    (void)ok_after;
  }
  std::string io_counters_site;

  // "the failure surfaces as an error status on the affected or later calls": a one-shot failure of a write or sync on a
  // log, MANIFEST, table or CURRENT temp file changes what is durable, so it must not pass unnoticed on the handle that
  // suffered it; if no call has reported an error yet, one more sync write or a flush must (the background error is
  // sticky).  Called before the handle is closed; a new handle starts clean.
  void surfacing_probe(ldb_t *db, const FaultPlan &plan) {
    if (!(db && !surfaced && !probed && !plan.persistent)) return;
    // let a background compaction that may be carrying the failure finish: it records its error when it ends
    sched_quiesce();
    if (!(fired() && must_surface())) return;
    probed = true;
    std::string k = "zz-probe-after-fault", v = "x";
    ldb_slice_t ks = slice_of(k), vs = slice_of(v);
    ldb_writeopt_t wo = *ldb_writeopt_default;
    wo.sync = 1;
    sched_call_begin();
    int prc = ldb_put(db, &ks, &vs, &wo);
    sched_call_end();
    if (prc == LDB_OK) {
      sched_call_begin();
      int frc = ldb_test_compact_memtable(db);
      sched_call_end();
      if (frc == LDB_OK)
        VF_FAIL("C12", "the injected failure (%s, errno %d, one-shot) was never reported: every call on that handle, a later sync write and a flush all returned OK", io_counters().fired_desc.c_str(), plan.err);
    }
    surfaced = true;
    rep->count("surfacing_probes");
  }
  bool probed = false;

  bool must_surface() {
    const std::string &d = io_counters().fired_desc;
    bool wr = d.compare(0, 5, "write") == 0 || d.compare(0, 5, "fsync") == 0 || d.compare(0, 9, "fdatasync") == 0;
    if (!wr) return false;
    std::string f = d.substr(d.find(' ') + 1);
    const char *cls = io_file_class(f);
    return !strcmp(cls, "log") || !strcmp(cls, "manifest") || !strcmp(cls, "table") || !strcmp(cls, "temp");
  }
  bool last_fault_on_log_write() {
    const std::string &d = io_counters().fired_desc;
    bool is_log = d.size() > 4 && d.compare(d.size() - 4, 4, ".log") == 0;
    bool is_wr = d.compare(0, 5, "write") == 0 || d.compare(0, 5, "fsync") == 0 || d.compare(0, 9, "fdatasync") == 0;
    return is_log && is_wr && io_counters().injected == 1;
  }

  void cleanup() {
    if (sched_active()) sched_end();
    io_reset();
    rm_rf(dir);
    rm_rf(img);
  }
};

static FaultPlan plan_from(const Op &op) {
  FaultPlan p;
  p.at = op.geti("at", -1);
  p.err = (int)op.geti("err", EIO);
  p.persistent = op.geti("persist", 0) != 0;
  p.short_write = op.geti("short", 0) != 0;
  if (op.has("mask")) p.kind_mask = (uint32_t)op.geti("mask");
  if (op.has("name")) p.name_contains = op.get("name");
  return p;
}

static std::string plan_line(const FaultPlan &p) {
  std::string s = sfmt("fault at=%lld err=%d persist=%d short=%d mask=%u", (long long)p.at, p.err, p.persistent ? 1 : 0, p.short_write ? 1 : 0, p.kind_mask);
  if (!p.name_contains.empty()) s += " name=" + p.name_contains;
  return s + "\n";
}

int main(int argc, char **argv) {
  std::string replay, kind = "C12", out = "";
  uint64_t seed = 1;
  long count = 10;
  double budget = 1e9;
  int maxsize = 100;
  for (int i = 1; i < argc; i++) {
    std::string a = argv[i];
    auto next = [&]() -> std::string { return (i + 1 < argc) ? argv[++i] : ""; };
    if (a == "--replay") replay = next();
    else if (a == "--kind") kind = next();
    else if (a == "--seed") seed = strtoull(next().c_str(), nullptr, 10);
    else if (a == "--count") count = atol(next().c_str());
    else if (a == "--worker") g_worker = atoi(next().c_str());
    else if (a == "--out") out = next();
    else if (a == "--budget") budget = atof(next().c_str());
    else if (a == "--maxsize") maxsize = atoi(next().c_str());
    else if (a == "--known") next();
  }
  signal(SIGPIPE, SIG_IGN);
  setvbuf(stdout, nullptr, _IOLBF, 0);
  sched_set_fatal_hook(fatal_hook);
  g_out_dir = out;
  Report rep;
  int rc = 0;
  bool thorough = kind.find("-thorough") != std::string::npos;
  // all intercepted kinds except reads of the LOCK file etc.; MARK excluded
  const uint32_t all_mask = (1u << IO_OPEN) | (1u << IO_CLOSE) | (1u << IO_READ) | (1u << IO_PREAD) | (1u << IO_WRITE) | (1u << IO_FSYNC) | (1u << IO_FDATASYNC) |
                            (1u << IO_RENAME) | (1u << IO_UNLINK) | (1u << IO_LINK) | (1u << IO_MKDIR) | (1u << IO_MMAP);
  if (!replay.empty()) {
    std::string text;
    if (!read_file(replay, text)) { fprintf(stderr, "cannot read %s\n", replay.c_str()); return 2; }
    g_current_text = text;
    Case c = parse_case(text);
    FaultPlan p;
    p.kind_mask = all_mask;
    for (auto &op : c.ops) if (op.name == "fault") p = plan_from(op);
    FaultRunner r(&rep);
    try {
      r.run_once(c, p);
      printf("PASS fault=%s\n", r.io_counters_desc.c_str());
    } catch (const Violation &v) {
      printf("FAIL property=%s msg=%s [injected: %s]\n", v.prop.c_str(), v.msg.c_str(), io_counters().fired_desc.c_str());
      rc = 3;
    }
    r.cleanup();
    scratch_cleanup();
    return rc;
  }
  double t0 = now_s();
  for (long i = 0; i < count && rc == 0; i++) {
    if (now_s() - t0 > budget) { rep.count("budget_exhausted"); break; }
    uint64_t cs = seed * 1000003ULL + (uint64_t)g_worker * 7919ULL + (uint64_t)i;
    int size = (int)((i * 13) % (maxsize + 1));
    std::string base = gen_case(kind.c_str(), cs, size);
    Case c = parse_case(base);
    FaultRunner r(&rep);
    // 1. fault-free counting run
    FaultPlan none;
    none.kind_mask = all_mask;
    g_current_text = base;
    if (!out.empty()) write_file(out + sfmt("/w%d.current.case", g_worker), base);
    try {
      r.run_once(c, none);
    } catch (const Violation &v) {
      std::string fn = out + sfmt("/w%d.failing.case", g_worker);
      write_file(fn, base);
      printf("FAIL property=%s case=%s msg=%s\n", v.prop.c_str(), fn.c_str(), v.msg.c_str());
      rc = 3;
      r.cleanup();
      break;
    }
    uint64_t N = r.eligible_total;
    std::vector<std::string> classes = r.eligible_class;
    r.cleanup();
    rep.count("histories");
    rep.count("eligible_calls_total", (long long)N);
    // 2. failure sites: every k if affordable, else a seeded sample; variants rotate
    long max_sites = thorough ? 400 : 60;
    std::vector<uint64_t> sites;
    uint64_t rng = cs ^ 0x9e3779b9;
    if ((long)N <= max_sites) for (uint64_t k = 0; k < N; k++) sites.push_back(k);
    else {
      // half of the sample uniform over all calls, half stratified: a uniformly chosen (call, file class) stratum, then a
      // uniformly chosen member, so that rare sites (a MANIFEST write, the CURRENT rename) are not drowned by log and table writes
      std::set<uint64_t> s;
      std::map<std::string, std::vector<uint64_t>> strata;
      for (uint64_t k = 0; k < N && k < classes.size(); k++) strata[classes[k]].push_back(k);
      std::vector<const std::vector<uint64_t> *> sv;
      for (auto &q : strata) sv.push_back(&q.second);
      while ((long)s.size() < max_sites / 2) s.insert(splitmix(rng) % N);
      for (int tries = 0; (long)s.size() < max_sites && tries < max_sites * 20 && !sv.empty(); tries++) {
        const std::vector<uint64_t> &st = *sv[splitmix(rng) % sv.size()];
        s.insert(st[splitmix(rng) % st.size()]);
      }
      sites.assign(s.begin(), s.end());
    }
    if ((long)N <= max_sites) rep.count("histories_with_every_site_explored");
    static const int errs[] = {ENOSPC, EIO, EMFILE, ENOENT};
    for (uint64_t k : sites) {
      if (now_s() - t0 > budget) { rep.count("budget_exhausted"); break; }
      FaultPlan p;
      p.kind_mask = all_mask;
      p.at = (int64_t)k;
      uint64_t v = splitmix(rng);
      p.err = errs[(v >> 4) % ((v & 8) ? 2 : 4)];
      p.persistent = (v % 5) == 0;
      bool site_is_write = k < classes.size() && classes[k].compare(0, 6, "write.") == 0;
      p.short_write = site_is_write ? (v % 7) < 3 : (v % 7) == 1;
      if (p.short_write && site_is_write) p.persistent = (v % 35) == 0;
      std::string text = base + plan_line(p);
      g_current_text = text;
      if (!out.empty()) write_file(out + sfmt("/w%d.current.case", g_worker), text);
      FaultRunner fr(&rep);
      try {
        fr.run_once(c, p);
        rep.count("cases");
        bool reached = fr.io_counters_desc != "none reached";
        if (reached) {
          long ok_after = 0;
          bool seen = false;
          (void)seen;
          for (auto &w : fr.writes) if (w.rc == LDB_OK) ok_after++;
          // non-trivial: the injected call was reached and >=1 write was acknowledged in the run
          if (ok_after > 0) rep.fp("C12.nt", fnv1a(text));
          std::string d = fr.io_counters_desc.substr(0, fr.io_counters_desc.find(' '));
          std::string f = fr.io_counters_desc.substr(fr.io_counters_desc.find(' ') + 1);
          f = f.substr(0, f.find(' '));
          rep.count("class.site=" + d + "." + io_file_class(f));
          rep.count(p.persistent ? "class.persistent" : p.short_write ? "class.short_write" : "class.one_shot");
          rep.count(sfmt("class.errno=%d", p.err));
        } else rep.count("site_not_reached");
        if (rep.samples.size() < 3 && reached) rep.sample(text.size() > 900 ? "..." + text.substr(text.size() - 900) : text);
      } catch (const Violation &vi) {
        std::string fn = out.empty() ? std::string("failing.case") : out + sfmt("/w%d.failing.case", g_worker);
        write_file(fn, text);
        printf("FAIL property=%s case=%s msg=%s\n", vi.prop.c_str(), fn.c_str(), vi.msg.c_str());
        rc = 3;
        fr.cleanup();
        break;
      }
      fr.cleanup();
    }
  }
  if (!out.empty()) {
    unlink((out + sfmt("/w%d.current.case", g_worker)).c_str());
    write_file(out + sfmt("/w%d.json", g_worker), rep.json());
  }
  scratch_cleanup();
  return rc;
}
