// crash — recorded histories x crash points x crash images (C02, C03, C04a, C05, C17/4).
//
// 1. A generated write history runs on the deterministic scheduler with the I/O
//    layer recording every system call (with data) and harness markers
//    BEGIN/ACK around each API call.  Every write carries two marker keys, so
//    the set T of surviving batches can be read off a recovered database.
// 2. The trace is replayed through the file-system model; at every state-
//    changing system-call boundary the crash images allowed by C02's model are
//    materialised (minimal, maximal = process kill, directory-ahead,
//    data-ahead, torn last write, sampled) and opened by the real code.
// 3. Oracles: open succeeds (C05); required batches present (C02 / C03);
//    markers all-or-nothing (C04); contents == fold(T) and T is a prefix of each
//    log segment (C05); CURRENT names a MANIFEST the reference decodes (C17);
//    follow-up writes win and persist; new files use fresh numbers (C05).
#include <signal.h>
#include <stdio.h>
#include <stdlib.h>
#include <string.h>
#include <time.h>
#include <unistd.h>

#include <algorithm>
#include <deque>
#include <set>

#include "../fsmodel.h"
#include "../layout.h"
#include "../lc.h"
#include "../ref/ref.h"
#include "../util.h"
#include "../vfio.h"
#include "../vfsched.h"

namespace vf {
std::string gen_case(const char *kind, uint64_t seed, int size);
}
using namespace vf;

struct Violation { std::string prop, msg, sig; };
#define VF_FAIL(prop, ...) throw Violation{prop, sfmt(__VA_ARGS__), ""}
static std::set<std::string> g_known;

static std::string g_out_dir, g_current_text;
static int g_worker = 0;
static void fatal_hook(const char *why) {
  if (!g_out_dir.empty()) write_file(g_out_dir + sfmt("/w%d.failing.case", g_worker), g_current_text);
  printf("FAIL property=C09 msg=%s\n", why);
  fflush(stdout);
}

static double now_s() {
  struct timespec ts;
  clock_gettime(CLOCK_MONOTONIC, &ts);
  return ts.tv_sec + ts.tv_nsec * 1e-9;
}

struct Update { bool put; std::string key, value; };

struct WriteRec {
  int idx;
  std::vector<Update> ups;   // user updates only (markers are implicit)
  bool sync = false;
  size_t begin_ev = 0, ack_ev = (size_t)-1;
  int rc = -1;
  int log_inode = -1;        // which log file (inode of the model) holds the batch
  int log_pos = -1;          // position within that log
};

static std::string marker_key(int idx, char which) { return std::string("\0M", 2) + sfmt("%06d%c", idx, which); }
static bool parse_marker(const std::string &k, int *idx, char *which) {
  if (k.size() != 9 || k[0] != 0 || k[1] != 'M') return false;
  *idx = atoi(k.substr(2, 6).c_str());
  *which = k[8];
  return true;
}

struct Params {
  std::string kind = "C02";
  bool only_maximal = false;     // C03: process-kill images only
  bool torn = true;
  int sampled_per_point = 1;
  long max_images = 300;         // per history
  bool followup = true;
  int nested_every = 0;          // every n-th image also gets second-level crash points inside its recovery
  long max_nested = 12;
};

class CrashRunner {
 public:
  CrashRunner(Report *r, const Params &p) : rep(r), P(p) {}
  Report *rep;
  Params P;
  bool verbose = false;

  DbConfig cfg;
  std::vector<DbConfig> cfg_at_op;      // configuration in effect during op i
  SchedConfig scfg;
  std::string dir, img;
  std::deque<WriteRec> writes;       // indexed by batch number; a deque keeps references stable while other threads append
  int max_concurrent_writers = 1;
  std::vector<IoEvent> trace;
  std::vector<std::pair<size_t, size_t>> op_span;  // op index -> [begin_ev, end_ev]
  std::vector<std::string> op_name;
  uint64_t case_hash = 0;
  KeyLess less;

  // ------------------------------------------------------------------ record
  void sched_cfg(const Op &op) {
    std::string s = op.get("sched", "eager");
    if (const char *ov = getenv("VF_SCHED")) s = ov;
    if (s == "starved") scfg.strategy = ST_STARVED;
    else if (s == "random") scfg.strategy = ST_RANDOM;
    else scfg.strategy = ST_EAGER;
    scfg.seed = (uint64_t)op.geti("sseed", 1);
    scfg.step_limit = 20000000;
  }

  void add_markers_and_write(ldb_t *db, WriteRec &w, const Op &op, int opidx) {
    ldb_batch_t *b = ldb_batch_create();
    std::string mk = marker_key(w.idx, 'a'), mv = sfmt("%d", w.idx);
    ldb_slice_t ks = slice_of(mk), vs = slice_of(mv);
    ldb_batch_put(b, &ks, &vs);
    for (auto &u : w.ups) {
      ldb_slice_t k2 = slice_of(u.key), v2 = slice_of(u.value);
      if (u.put) ldb_batch_put(b, &k2, &v2); else ldb_batch_del(b, &k2);
    }
    std::string mz = marker_key(w.idx, 'z');
    ldb_slice_t kz = slice_of(mz);
    ldb_batch_put(b, &kz, &vs);
    ldb_writeopt_t wo = *ldb_writeopt_default;
    wo.sync = w.sync ? 1 : 0;
    io_mark(sfmt("BW %d %d", w.idx, opidx));
    w.begin_ev = io_trace().size();
    sched_call_begin();
    w.rc = ldb_write(db, b, &wo);
    sched_call_end();
    w.ack_ev = io_trace().size();
    io_mark(sfmt("AW %d %d", w.idx, w.rc));
    ldb_batch_destroy(b);
    if (w.rc != LDB_OK) VF_FAIL("C01", "write returned rc=%d without any fault", w.rc);
    (void)op;
  }

  int concurrent_blocks = 0;

  // parses `put k v`, `del k`, `batch ...` (first = index of the operation name within op.args for thread lines)
  bool parse_write(const Op &op, int thread_form, WriteRec *w) {
    std::string n = thread_form ? (op.args.size() > 1 ? op.args[1] : "") : op.name;
    size_t a0 = thread_form ? 2 : 0;
    w->sync = op.geti("sync", 0) != 0;
    if (n == "put") {
      Update u; u.put = true;
      if (op.args.size() >= a0 + 2 && expand_bytes(op.args[a0], u.key) && expand_bytes(op.args[a0 + 1], u.value)) w->ups.push_back(u);
    } else if (n == "del") {
      Update u; u.put = false;
      if (op.args.size() >= a0 + 1 && expand_bytes(op.args[a0], u.key)) w->ups.push_back(u);
    } else if (n == "batch") {
      for (size_t i = a0; i < op.args.size(); i++) {
        const std::string &a = op.args[i];
        Update u;
        if (a.compare(0, 2, "p:") == 0) {
          size_t cpos = a.find(':', 2);
          if (cpos == std::string::npos) continue;
          u.put = true;
          if (!expand_bytes(a.substr(2, cpos - 2), u.key) || !expand_bytes(a.substr(cpos + 1), u.value)) continue;
          w->ups.push_back(u);
        } else if (a.compare(0, 2, "d:") == 0) {
          u.put = false;
          if (!expand_bytes(a.substr(2), u.key)) continue;
          w->ups.push_back(u);
        }
      }
    } else return false;
    // user keys starting with \0M would collide with markers
    for (auto &u : w->ups) if (u.key.size() >= 2 && u.key[0] == 0 && u.key[1] == 'M') return false;
    return !w->ups.empty() || n == "batch";
  }

  void record(const Case &c) {
    for (auto &op : c.ops)
      if (op.name == "config") { cfg.apply(op); sched_cfg(op); break; }
    less.kind = cmp_kind_of(cfg.cmp);
    static int seq = 0;
    dir = scratch_root() + sfmt("/rec%d", seq);
    img = scratch_root() + sfmt("/img%d", seq++);
    rm_rf(dir);
    io_reset();
    io_set_root(dir);
    io_record(true, false);
    sched_begin(scfg);
    DbOptions opts;
    opts.build(cfg);
    ldb_t *db = nullptr;
    cfg_at_op.assign(c.ops.size(), cfg);
    op_span.assign(c.ops.size(), {0, 0});
    op_name.assign(c.ops.size(), "");
    io_mark("BO -1 open");
    sched_call_begin();
    int rc = ldb_open(dir.c_str(), &opts.opt, &db);
    sched_call_end();
    io_mark("AO -1");
    if (rc != LDB_OK) VF_FAIL("C01", "ldb_open failed rc=%d without any fault", rc);
    for (int i = 0; i < (int)c.ops.size(); i++) {
      const Op &op = c.ops[i];
      const std::string &n = op.name;
      cfg_at_op[i] = cfg;
      op_name[i] = n;
      op_span[i].first = io_trace().size();
      if (n == "put" || n == "del" || n == "batch") {
        WriteRec w;
        if (!parse_write(op, 0, &w)) { rep->count("skipped_ops"); continue; }
        writes.push_back(w);
        WriteRec &slot = writes.back();
        slot.idx = (int)writes.size() - 1;
        add_markers_and_write(db, slot, op, i);
      } else if (n == "emptywrite") {
        // ldb_write of a batch with no updates: a 12-byte log record that carries no marker and changes no state; it must be
        // acknowledged and must never stand in the way of a later recovery (added after seed C03e)
        ldb_batch_t *b = ldb_batch_create();
        ldb_writeopt_t wo = *ldb_writeopt_default;
        wo.sync = op.geti("sync", 0) != 0;
        sched_call_begin();
        int rc = ldb_write(db, b, &wo);
        sched_call_end();
        ldb_batch_destroy(b);
        if (rc != LDB_OK) VF_FAIL("C01", "write of an empty batch returned rc=%d without any fault", rc);
        rep->count("op.emptywrite");
      } else if (n == "thread") {
        // a block of consecutive `thread <t> put|del|batch ...` lines runs concurrently (group commit in the trace)
        std::map<int, std::vector<Op>> prog;
        int j = i;
        for (; j < (int)c.ops.size() && c.ops[j].name == "thread"; j++) {
          const Op &to = c.ops[j];
          if (to.args.size() >= 2) prog[atoi(to.args[0].c_str())].push_back(to);
          cfg_at_op[j] = cfg;
          op_name[j] = "thread";
          op_span[j].first = io_trace().size();
        }
        struct TA { CrashRunner *self; ldb_t *db; std::vector<Op> ops; int opidx; };
        std::vector<TA> tas;
        for (auto &pr : prog) tas.push_back(TA{this, db, pr.second, i});
        if ((int)tas.size() > max_concurrent_writers) max_concurrent_writers = (int)tas.size();
        std::vector<int> tids;
        for (auto &ta : tas)
          tids.push_back(sched_spawn([](void *p) {
            TA *a = (TA *)p;
            for (auto &to : a->ops) {
              WriteRec w;
              if (!a->self->parse_write(to, 1, &w)) continue;
              a->self->writes.push_back(w);
              WriteRec &slot = a->self->writes.back();
              slot.idx = (int)a->self->writes.size() - 1;
              a->self->add_markers_and_write(a->db, slot, to, a->opidx);
            }
          }, &ta));
        for (int t : tids) sched_join(t);
        for (int k = i; k < j; k++) op_span[k].second = io_trace().size();
        i = j - 1;
        concurrent_blocks++;
        continue;
      } else if (n == "fill") {
        long lo = op.args.size() > 0 ? atol(op.args[0].c_str()) : 0;
        long hi = op.args.size() > 1 ? atol(op.args[1].c_str()) : lo + 10;
        long nb = op.args.size() > 2 ? atol(op.args[2].c_str()) : 1000;
        long sd = op.args.size() > 3 ? atol(op.args[3].c_str()) : 1;
        long every = op.geti("syncevery", 0);
        if (hi - lo > 2000) hi = lo + 2000;
        for (long k = lo; k < hi; k++) {
          WriteRec w;
          w.sync = every > 0 && (k % every) == 0;
          Update u; u.put = true;
          u.key = sfmt("k%05ld", k);
          expand_bytes(sfmt("%c%ld.%ld", (sd & 1) ? 'r' : 'c', sd * 100003 + k, nb), u.value);
          w.ups.push_back(u);
          writes.push_back(w);
          WriteRec &slot = writes.back();
          slot.idx = (int)writes.size() - 1;
          add_markers_and_write(db, slot, op, i);
        }
      } else if (n == "flush") {
        io_mark(sfmt("BO %d flush", i));
        sched_call_begin();
        int r2 = ldb_test_compact_memtable(db);
        sched_call_end();
        io_mark(sfmt("AO %d", i));
        if (r2 != LDB_OK) VF_FAIL("C01", "flush returned rc=%d without any fault", r2);
      } else if (n == "crange") {
        int level = op.args.size() > 0 ? atoi(op.args[0].c_str()) : 0;
        if (level < 0 || level > 5) continue;
        std::string b, e;
        bool hb = op.args.size() > 1 && op.args[1] != "-" && expand_bytes(op.args[1], b);
        bool he = op.args.size() > 2 && op.args[2] != "-" && expand_bytes(op.args[2], e);
        ldb_slice_t bs = slice_of(b), es = slice_of(e);
        io_mark(sfmt("BO %d crange", i));
        sched_call_begin();
        ldb_test_compact_range(db, level, hb ? &bs : nullptr, he ? &es : nullptr);
        sched_call_end();
        io_mark(sfmt("AO %d", i));
      } else if (n == "compact") {
        io_mark(sfmt("BO %d compact", i));
        sched_call_begin();
        ldb_compact(db, nullptr, nullptr);
        sched_call_end();
        io_mark(sfmt("AO %d", i));
      } else if (n == "reopen") {
        io_mark(sfmt("BO %d reopen", i));
        sched_call_begin();
        ldb_close(db);
        sched_call_end();
        db = nullptr;
        sched_quiesce();
        std::string keep_cmp = cfg.cmp;
        cfg.apply(op);
        cfg.cmp = keep_cmp;
        cfg_at_op[i] = cfg;
        opts.build(cfg);
        sched_call_begin();
        rc = ldb_open(dir.c_str(), &opts.opt, &db);
        sched_call_end();
        io_mark(sfmt("AO %d", i));
        if (rc != LDB_OK) VF_FAIL("C05", "clean reopen failed rc=%d without any fault", rc);
      } else if (n == "quiesce") {
        sched_quiesce();
      }
      op_span[i].second = io_trace().size();
    }
    io_mark("BO -2 close");
    sched_call_begin();
    ldb_close(db);
    sched_call_end();
    io_mark("AO -2");
    int blocked = sched_end();
    if (blocked) VF_FAIL("C09", "%d thread(s) blocked after close", blocked);
    trace = io_trace();
    io_record(false);
    opts.clear();
    final_cfg = cfg;
  }
  DbConfig final_cfg;

  // --------------------------------------------------------- trace analysis
  // which log inode holds each write (from the bytes of the logs, decoded by the reference reader)
  std::map<int, std::vector<int>> segments;  // log inode -> write indices in log order
  std::map<int, size_t> log_unlink_ev;       // log inode -> trace index of its unlink
  std::map<int, std::string> inode_name;
  std::map<int, int> log_rank;                // batch -> position in the global log order

  void analyse(FsModel &full) {
    for (size_t i = 0; i < full.inodes.size(); i++) {
      const FsInode &in = full.inodes[i];
      inode_name[(int)i] = in.first_name;
      if (strcmp(io_file_class(in.first_name), "log") != 0) continue;
      ref::LogDecode ld = ref::log_decode(in.data);
      for (auto &rec : ld.records) {
        ref::Batch b;
        if (!ref::batch_decode(rec, &b)) VF_FAIL("C15", "reference decoder cannot parse a batch in %s written by a fault-free run", in.first_name.c_str());
        for (auto &o : b.ops) {
          int idx; char which;
          if (o.put && parse_marker(o.key, &idx, &which) && which == 'a') {
            if (idx < 0 || idx >= (int)writes.size()) VF_FAIL("C15", "unknown marker %d in %s", idx, in.first_name.c_str());
            if (writes[idx].log_inode >= 0) VF_FAIL("C03", "batch %d appears in two log files", idx);
            writes[idx].log_inode = (int)i;
            writes[idx].log_pos = (int)segments[(int)i].size();
            segments[(int)i].push_back(idx);
          }
        }
      }
      if (ld.corruption_events) VF_FAIL("C15", "reference decoder reports corruption in %s written by a fault-free run", in.first_name.c_str());
    }
    for (auto &w : writes)
      if (w.log_inode < 0) VF_FAIL("C03", "acknowledged batch %d is in no write-ahead log (reference decode of all log bytes)", w.idx);
    // log order must respect real time: a batch acknowledged before another was issued precedes it in the log
    // (for a single client this is issue order); the global order of surviving batches is the log order
    {
      std::vector<std::pair<int, int>> order;  // (log inode, position) -> batch, logs in creation order
      int rank = 0;
      for (auto &sgm : segments) for (int idx : sgm.second) log_rank[idx] = rank++;
      for (auto &a : writes) for (auto &b : writes)
        if (a.ack_ev != (size_t)-1 && a.ack_ev < b.begin_ev && log_rank[a.idx] > log_rank[b.idx])
          VF_FAIL("C03", "batch %d was acknowledged before batch %d was issued but follows it in the write-ahead logs", a.idx, b.idx);
    }
    // unlink events of log files: map by name at the time of unlink
    FsModel m2;
    for (size_t ev = 0; ev < trace.size(); ev++) {
      const IoEvent &e = trace[ev];
      if (e.kind == IO_UNLINK && e.result >= 0 && strcmp(io_file_class(e.path), "log") == 0) {
        auto it = m2.current.find(e.path);
        if (it != m2.current.end()) log_unlink_ev[it->second] = ev;
      }
      m2.apply(e, ev);
    }
  }

  // ----------------------------------------------------------- image checks
  struct Recovered {
    std::map<std::string, std::string> user;     // user key -> value (bytewise map; order irrelevant)
    std::set<int> T;
  };

  std::vector<std::pair<std::string, std::string>> scan_all(ldb_t *db, const char *prop) {
    std::vector<std::pair<std::string, std::string>> out;
    ldb_iter_t *it = ldb_iterator(db, nullptr);
    for (ldb_iter_first(it); ldb_iter_valid(it); ldb_iter_next(it))
      out.push_back({str_of(ldb_iter_key(it)), str_of(ldb_iter_value(it))});
    int st = ldb_iter_status(it);
    ldb_iter_destroy(it);
    if (st != LDB_OK) VF_FAIL(prop, "scan of the recovered database ends with status %d", st);
    return out;
  }

  Recovered read_back(ldb_t *db, const std::string &what) {
    Recovered r;
    std::map<int, int> marks;
    for (auto &kv : scan_all(db, "C05")) {
      int idx; char which;
      if (parse_marker(kv.first, &idx, &which)) {
        if (idx < 0 || idx >= (int)writes.size() || kv.second != sfmt("%d", idx))
          VF_FAIL("C05", "%s: marker %s with value %s was never written", what.c_str(), lit_token(kv.first).c_str(), lit_token(kv.second).substr(0, 40).c_str());
        marks[idx] |= (which == 'a') ? 1 : 2;
      } else {
        r.user[kv.first] = kv.second;
      }
    }
    for (auto &m : marks) {
      if (m.second != 3)
        VF_FAIL("C04", "%s: batch %d is partially applied (only its %s marker survived)", what.c_str(), m.first, m.second == 1 ? "first" : "last");
      r.T.insert(m.first);
    }
    return r;
  }

  std::map<std::string, std::string> fold(const std::set<int> &T) {
    std::map<std::string, std::string> m;
    std::vector<int> order(T.begin(), T.end());
    std::sort(order.begin(), order.end(), [&](int a, int b) { return log_rank[a] < log_rank[b]; });
    for (int i : order)
      for (auto &u : writes[i].ups) {
        if (u.put) m[u.key] = u.value; else m.erase(u.key);
      }
    return m;
  }

  void compare_contents(const std::map<std::string, std::string> &got, const std::map<std::string, std::string> &want,
                        const std::string &what, const char *prop) {
    for (auto &p : want) {
      auto it = got.find(p.first);
      if (it == got.end()) VF_FAIL(prop, "%s: key %s missing (expected %zu-byte value from the surviving batches)", what.c_str(), lit_token(p.first).substr(0, 40).c_str(), p.second.size());
      if (it->second != p.second)
        VF_FAIL(prop, "%s: key %s has a value (len %zu h=%08x) that is not the newest among surviving batches (len %zu h=%08x)", what.c_str(),
                lit_token(p.first).substr(0, 40).c_str(), it->second.size(), (unsigned)fnv1a(it->second), p.second.size(), (unsigned)fnv1a(p.second));
    }
    for (auto &p : got)
      if (!want.count(p.first)) VF_FAIL(prop, "%s: key %s present but deleted/never written in the surviving batches", what.c_str(), lit_token(p.first).substr(0, 40).c_str());
  }

  uint64_t max_number_in(const std::string &d) {
    uint64_t mx = 0;
    for (auto &n : list_dir(d)) {
      uint64_t num; std::string kind;
      if (parse_db_filename(n, &num, &kind) && num > mx) mx = num;
    }
    return mx;
  }

  struct ImgClass { bool torn_log = false, torn_manifest = false, current_switch = false, orphan = false, two_manifests = false; std::set<uint64_t> live_tables; };

  // C17: CURRENT names a MANIFEST that the reference decodes
  ImgClass check_metadata_files(const std::string &d, const std::string &what) {
    ImgClass ic;
    std::vector<std::string> names = list_dir(d);
    int nman = 0;
    bool has_tmp = false, has_current = false;
    for (auto &n : names) {
      const char *cl = io_file_class(n);
      if (!strcmp(cl, "manifest")) nman++;
      if (!strcmp(cl, "temp")) has_tmp = true;
      if (!strcmp(cl, "current")) has_current = true;
      if (!strcmp(cl, "log")) {
        std::string bytes;
        read_file(d + "/" + n, bytes);
        if (ref::log_decode(bytes).torn_tail) ic.torn_log = true;
      }
    }
    ic.two_manifests = nman >= 2;
    ic.current_switch = has_tmp || (nman >= 1 && !has_current) || nman >= 2;
    if (!has_current) return ic;  // database never finished being created
    std::string cur;
    read_file(d + "/CURRENT", cur);
    if (cur.empty()) {
      // a created-but-empty CURRENT can only exist if its data was not durable; rename happens after fsync
      VF_FAIL("C17", "%s: CURRENT exists but is empty", what.c_str());
    }
    if (cur.back() != '\n' || cur.compare(0, 9, "MANIFEST-") != 0)
      VF_FAIL("C17", "%s: CURRENT content %s is not a MANIFEST name ending in newline", what.c_str(), lit_token(cur).c_str());
    std::string mname = cur.substr(0, cur.size() - 1), mbytes;
    if (!read_file(d + "/" + mname, mbytes)) VF_FAIL("C17", "%s: CURRENT names %s which does not exist", what.c_str(), mname.c_str());
    ref::VersionState vs;
    std::string err;
    ref::LogDecode ld;
    if (!ref::manifest_replay(mbytes, &vs, &err, &ld)) VF_FAIL("C17", "%s: %s named by CURRENT does not decode with the reference reader: %s", what.c_str(), mname.c_str(), err.c_str());
    if (ld.records.empty()) VF_FAIL("C17", "%s: %s named by CURRENT holds no complete record", what.c_str(), mname.c_str());
    if (!vs.has_next || !vs.has_last_seq || !vs.has_log) VF_FAIL("C17", "%s: %s lacks next-file/last-sequence/log-number fields", what.c_str(), mname.c_str());
    ic.torn_manifest = ld.torn_tail;
    std::set<uint64_t> live;
    for (int l = 0; l < 7; l++) for (auto &f : vs.levels[l]) live.insert(f.first);
    ic.live_tables = live;
    for (auto &n : names) {
      uint64_t num; std::string kind;
      if (parse_db_filename(n, &num, &kind) && kind == "table" && !live.count(num)) ic.orphan = true;
    }
    return ic;
  }

  std::set<uint64_t> seen_images;
  long images_done = 0;
  double deadline = 1e18;   // monotonic seconds; exploration of a history stops there (inconclusive for the rest)

  void check_image(const FsModel &m, const FsImage &im, size_t t, int opidx, FsModel *unused = nullptr) {
    (void)unused;
    if (!seen_images.insert(im.hash).second) { rep->count("images_deduplicated"); return; }
    images_done++;
    rm_rf(img);
    if (!m.materialise(im, img)) VF_FAIL("C05", "harness: cannot materialise image");
    std::string what = sfmt("crash point %zu (after `%s`), %s image", t, t ? io_event_str(trace[t - 1]).c_str() : "start", im.kind.c_str());
    if (verbose) {
      fprintf(stderr, "== %s\n", what.c_str());
      for (auto &p : im.names) fprintf(stderr, "   %s inode=%d len=%zu (synced %zu written %zu)\n", p.first.c_str(), p.second, im.len.at(p.second), m.inodes[p.second].synced, m.inodes[p.second].written);
    }
    bool maximal = (im.kind == "maximal");
    // required and allowed batches
    std::set<int> required, allowed;
    for (auto &w : writes) {
      if (w.begin_ev < t) allowed.insert(w.idx);
      bool acked = w.ack_ev < t || (w.ack_ev == t && false);
      acked = (w.ack_ev != (size_t)-1) && (w.ack_ev <= t) && w.rc == LDB_OK;
      if (!acked) continue;
      if (maximal || w.sync) required.insert(w.idx);
      else {
        auto u = log_unlink_ev.find(w.log_inode);
        if (u != log_unlink_ev.end() && u->second < t) required.insert(w.idx);
      }
    }
    ImgClass ic = check_metadata_files(img, what);
    // ---- recovery by the real code
    const DbConfig &c = (opidx >= 0 && opidx < (int)cfg_at_op.size()) ? cfg_at_op[opidx] : final_cfg;
    DbOptions opts;
    opts.build(c);
    io_reset();
    io_set_root(img);
    bool do_nested = P.nested_every > 0 && (images_done % P.nested_every) == 0;
    if (do_nested) io_record(true, false);
    SchedConfig sc;
    sc.strategy = ST_EAGER;
    sc.step_limit = 20000000;
    sched_begin(sc);
    ldb_t *db = nullptr;
    sched_call_begin();
    int rc = ldb_open(img.c_str(), &opts.opt, &db);
    sched_call_end();
    std::vector<IoEvent> rtrace;
    if (do_nested) { sched_quiesce(); rtrace = io_trace(); io_record(false); }
    if (rc != LDB_OK) {
      sched_end();
      VF_FAIL("C05", "%s: ldb_open fails with rc=%d", what.c_str(), rc);
    }
    Recovered r = read_back(db, what);
    // C13: once the reopen has completed (no iterators exist) the directory holds only live files
    {
      sched_quiesce();
      char *val = nullptr;
      Layout L;
      std::string perr;
      if (!ldb_property(db, "leveldb.sstables", &val) || !val) { sched_call_begin(); ldb_close(db); sched_call_end(); sched_end(); VF_FAIL("C14", "%s: property leveldb.sstables unavailable", what.c_str()); }
      std::string text = val;
      ldb_free(val);
      if (!parse_layout(text, L, &perr)) { sched_call_begin(); ldb_close(db); sched_call_end(); sched_end(); VF_FAIL("C14", "%s: cannot parse layout: %s", what.c_str(), perr.c_str()); }
      int nlogs = 0, nman = 0;
      std::string leak;
      for (auto &n : list_dir(img)) {
        uint64_t num; std::string kind;
        if (n == "CURRENT" || n == "LOCK" || n == "LOG" || n == "LOG.old") continue;
        if (!parse_db_filename(n, &num, &kind)) continue;
        if (kind == "table" && !L.has(num)) leak = n;
        else if (kind == "temp") leak = n;
        else if (kind == "log") nlogs++;
        else if (kind == "manifest") nman++;
      }
      if (leak.empty() && nlogs != 1) leak = sfmt("%d log files", nlogs);
      if (leak.empty() && nman != 1) {
        // known finding: a MANIFEST numbered above the live one is kept deliberately (keep rule `number >= manifest_file_number`)
        std::string cur;
        read_file(img + "/CURRENT", cur);
        uint64_t live_no = cur.size() > 9 ? strtoull(cur.c_str() + 9, nullptr, 10) : 0;
        bool all_newer = true;
        for (auto &n : list_dir(img)) {
          uint64_t num; std::string kind;
          if (parse_db_filename(n, &num, &kind) && kind == "manifest" && num < live_no) all_newer = false;
        }
        if (all_newer && g_known.count("orphan-newer-manifest-kept")) rep->count("known.orphan-newer-manifest-kept");
        else if (all_newer) { sched_call_begin(); ldb_close(db); sched_call_end(); sched_end(); throw Violation{"C13", sfmt("%s: after recovery completed an orphan MANIFEST numbered above the live one is still in the directory", what.c_str()), "orphan-newer-manifest-kept"}; }
        else leak = sfmt("%d MANIFEST files", nman);
      }
      if (!leak.empty()) { sched_call_begin(); ldb_close(db); sched_call_end(); sched_end(); VF_FAIL("C13", "%s: after recovery completed the directory still holds %s, which is not live", what.c_str(), leak.c_str()); }
      if (ic.orphan || ic.current_switch) rep->fp("C13.nt", fnv1a(sfmt("%016llx/%zu/%016llx", (unsigned long long)case_hash, t, (unsigned long long)im.hash)));
    }
    for (int i : required)
      if (!r.T.count(i)) {
        const WriteRec &w = writes[i];
        const char *prop = maximal ? "C03" : "C02";
        sched_call_begin(); ldb_close(db); sched_call_end(); sched_end();
        VF_FAIL(prop, "%s: batch %d (%s, acknowledged at event %zu%s) is missing after recovery", what.c_str(), i, w.sync ? "sync" : "non-sync", w.ack_ev,
                (!maximal && !w.sync) ? ", its log was unlinked before the crash" : "");
      }
    for (int i : r.T)
      if (!allowed.count(i)) { sched_call_begin(); ldb_close(db); sched_call_end(); sched_end(); VF_FAIL("C05", "%s: batch %d present although it was issued after the crash point", what.c_str(), i); }
    if (maximal) {
      // process kill: at most the in-flight write beyond the acknowledged ones
      int extra = 0;
      for (int i : r.T) if (!required.count(i)) extra++;
      if (extra > max_concurrent_writers) { sched_call_begin(); ldb_close(db); sched_call_end(); sched_end(); VF_FAIL("C03", "%s: %d unacknowledged batches present after a process crash (more than the writers that can be in flight)", what.c_str(), extra); }
    }
    // prefix of every log segment
    for (auto &s : segments) {
      bool gap = false;
      for (int i : s.second) {
        if (!r.T.count(i)) gap = true;
        else if (gap) { sched_call_begin(); ldb_close(db); sched_call_end(); sched_end(); VF_FAIL("C05", "%s: batch %d of log %s survived although an earlier batch of the same log was dropped", what.c_str(), i, inode_name[s.first].c_str()); }
      }
    }
    std::map<std::string, std::string> want = fold(r.T);
    const std::map<std::string, std::string> want0 = want;
    try {
      compare_contents(r.user, want, what, "C05");
      // point lookups agree with the scan
      int n = 0;
      for (auto &p : want) {
        if (++n > 40) break;
        ldb_slice_t ks = slice_of(p.first), val;
        int g = ldb_get(db, &ks, &val, nullptr);
        if (g != LDB_OK) VF_FAIL("C05", "%s: get(%s) rc=%d but the scan shows the key", what.c_str(), lit_token(p.first).substr(0, 40).c_str(), g);
        std::string got = str_of(val);
        ldb_free(val.data);
        if (got != p.second) VF_FAIL("C05", "%s: get(%s) differs from the scan", what.c_str(), lit_token(p.first).substr(0, 40).c_str());
      }
      // ---- follow-up workload: new writes win and persist
      if (P.followup) {
        std::string k1 = "zz-followup-new", v1 = sfmt("after-%zu", t);
        std::string k2 = want.empty() ? std::string("zz-none") : want.begin()->first, v2 = "overwritten-after-recovery";
        std::string k3 = want.size() > 1 ? want.rbegin()->first : std::string("zz-none2");
        ldb_slice_t s1 = slice_of(k1), sv1 = slice_of(v1), s2 = slice_of(k2), sv2 = slice_of(v2), s3 = slice_of(k3);
        ldb_writeopt_t wo = *ldb_writeopt_default;
        wo.sync = (t & 1);
        sched_call_begin();
        int w1 = ldb_put(db, &s1, &sv1, &wo), w2 = ldb_put(db, &s2, &sv2, &wo), w3 = ldb_del(db, &s3, &wo);
        sched_call_end();
        if (w1 || w2 || w3) VF_FAIL("C05", "%s: writes after recovery fail (%d,%d,%d)", what.c_str(), w1, w2, w3);
        want[k1] = v1; want[k2] = v2; want.erase(k3);
        if (t % 3 == 0) { sched_call_begin(); ldb_test_compact_memtable(db); sched_call_end(); }
      }
    } catch (...) {
      sched_call_begin(); ldb_close(db); sched_call_end(); sched_end();
      throw;
    }
    sched_call_begin();
    ldb_close(db);
    sched_call_end();
    db = nullptr;
    sched_quiesce();
    // recovery must not overwrite a table that the image's MANIFEST references
    for (uint64_t num : ic.live_tables) {
      std::string name = sfmt("%06llu.ldb", (unsigned long long)num), after;
      auto it = im.names.find(name);
      if (it == im.names.end()) continue;
      if (!read_file(img + "/" + name, after)) continue;  // compacted away: fine
      const FsInode &in = m.inodes[it->second];
      if (after != in.data.substr(0, im.len.at(it->second))) { sched_end(); VF_FAIL("C05", "%s: recovery rewrote table %s which the image's MANIFEST references", what.c_str(), name.c_str()); }
    }
    // second open: nothing further is lost, follow-up writes persisted
    sched_call_begin();
    rc = ldb_open(img.c_str(), &opts.opt, &db);
    sched_call_end();
    if (rc != LDB_OK) { sched_end(); VF_FAIL("C05", "%s: second ldb_open after recovery fails with rc=%d", what.c_str(), rc); }
    try {
      Recovered r2 = read_back(db, what + " (second open)");
      if (r2.T != r.T) VF_FAIL("C05", "%s: the set of surviving batches changed between the first and second open (%zu -> %zu)", what.c_str(), r.T.size(), r2.T.size());
      compare_contents(r2.user, want, what + " (second open, after follow-up writes)", "C05");
    } catch (...) {
      sched_call_begin(); ldb_close(db); sched_call_end(); sched_end();
      throw;
    }
    sched_call_begin();
    ldb_close(db);
    sched_call_end();
    int blocked = sched_end();
    if (blocked) VF_FAIL("C09", "%s: %d thread(s) blocked after closing the recovered database", what.c_str(), blocked);
    if (do_nested && !rtrace.empty()) nested_crashes(m, im, rtrace, c, r.T, want0, what);
    opts.clear();
    // ---- evidence bookkeeping
    rep->count("images");
    rep->count("image." + im.kind);
    uint64_t fp = fnv1a(sfmt("%016llx/%zu/%016llx", (unsigned long long)case_hash, t, (unsigned long long)im.hash));
    if (!required.empty() && !maximal) rep->fp("C02.nt", fp);
    if (maximal && in_multi_syscall_op(t)) rep->fp("C03.nt", fp);
    if (ic.torn_log || ic.torn_manifest || ic.current_switch || ic.orphan) rep->fp("C05.nt", fp);
    if (ic.torn_log && big_batch_in_flight(t)) rep->fp("C04.nt", fp);
    if (ic.two_manifests || ic.current_switch) rep->fp("C17.nt", fp);
    if (ic.torn_log) rep->count("class.torn_log_tail");
    if (ic.torn_manifest) rep->count("class.torn_manifest");
    if (ic.current_switch) rep->count("class.current_switch_in_progress");
    if (ic.orphan) rep->count("class.orphan_table");
    if (t) rep->count(std::string("phase.") + io_kind_name(trace[t - 1].kind) + "." + io_file_class(trace[t - 1].path));
  }

  // Second-level crash points: the recovery of an image is itself a recorded trace starting from a state in which
  // every byte of the image is durable.  Crashing anywhere inside it and recovering again must lose nothing further:
  // the same batches survive as after the completed first-level recovery.
  void nested_crashes(const FsModel &m, const FsImage &im, const std::vector<IoEvent> &rtrace, const DbConfig &c,
                      const std::set<int> &T1, const std::map<std::string, std::string> &want0, const std::string &what) {
    std::string base = img + ".base", img2 = img + ".n";
    rm_rf(base);
    if (!m.materialise(im, base)) return;
    FsModel nm;
    nm.init_from_dir(base);
    rm_rf(base);
    std::vector<size_t> points;
    { FsModel probe = nm; for (size_t ev = 0; ev < rtrace.size(); ev++) if (probe.apply(rtrace[ev], ev)) points.push_back(ev + 1); }
    uint64_t rng = im.hash ^ 0xabcdef;
    // every point when few, otherwise a seeded sample
    std::set<size_t> chosen;
    if ((long)points.size() <= P.max_nested) chosen.insert(points.begin(), points.end());
    else while ((long)chosen.size() < P.max_nested) chosen.insert(points[splitmix(rng) % points.size()]);
    size_t ev = 0;
    std::set<uint64_t> seen;
    for (size_t t2 : chosen) {
      if (now_s() > deadline) break;
      while (ev < t2) { nm.apply(rtrace[ev], ev); ev++; }
      for (int kind = 0; kind < 4; kind++) {
        FsImage ni = nm.canonical(kind);
        if (!seen.insert(ni.hash).second) continue;
        rm_rf(img2);
        if (!nm.materialise(ni, img2)) continue;
        std::string w2 = what + sfmt("; then crash inside that recovery at its event %zu (after `%s`), %s image", t2, io_event_str(rtrace[t2 - 1]).c_str(), ni.kind.c_str());
        DbOptions o2;
        o2.build(c);
        io_reset();
        io_set_root(img2);
        SchedConfig sc;
        sc.strategy = ST_EAGER;
        sc.step_limit = 20000000;
        sched_begin(sc);
        ldb_t *db = nullptr;
        sched_call_begin();
        int rc = ldb_open(img2.c_str(), &o2.opt, &db);
        sched_call_end();
        if (rc != LDB_OK) { sched_end(); rm_rf(img2); VF_FAIL("C05", "%s: ldb_open fails with rc=%d", w2.c_str(), rc); }
        try {
          Recovered r2 = read_back(db, w2);
          if (r2.T != T1) {
            int miss = -1;
            for (int i : T1) if (!r2.T.count(i)) { miss = i; break; }
            VF_FAIL("C05", "%s: batches surviving differ from the completed first recovery (%zu vs %zu%s)", w2.c_str(), r2.T.size(), T1.size(), miss >= 0 ? sfmt("; batch %d lost", miss).c_str() : "");
          }
          compare_contents(r2.user, want0, w2, "C05");
        } catch (...) {
          sched_call_begin(); ldb_close(db); sched_call_end(); sched_end();
          rm_rf(img2);
          throw;
        }
        sched_call_begin();
        ldb_close(db);
        sched_call_end();
        sched_end();
        rep->count("nested_images");
        rep->fp("C05.nt", fnv1a(sfmt("n/%016llx/%zu/%016llx", (unsigned long long)im.hash, t2, (unsigned long long)ni.hash)));
      }
    }
    rm_rf(img2);
    rep->count("nested_recoveries");
  }

  bool in_multi_syscall_op(size_t t) {
    for (auto &w : writes) if (w.begin_ev < t && t <= w.ack_ev && w.ack_ev - w.begin_ev >= 2) return true;
    for (size_t i = 0; i < op_span.size(); i++) {
      if (op_name[i] == "put" || op_name[i] == "del" || op_name[i] == "batch" || op_name[i] == "fill") continue;
      if (op_span[i].first < t && t < op_span[i].second && op_span[i].second - op_span[i].first >= 3) return true;
    }
    return false;
  }
  bool big_batch_in_flight(size_t t) {
    for (auto &w : writes) {
      if (!(w.begin_ev < t && t <= w.ack_ev)) continue;
      size_t bytes = 0;
      for (auto &u : w.ups) bytes += u.key.size() + u.value.size();
      if (bytes > 32768 - 7 || w.ups.size() >= 2) return true;
    }
    return false;
  }

  int op_index_at(size_t t) {
    int last = -1;
    for (size_t i = 0; i < op_span.size(); i++)
      if (op_span[i].first <= t && op_name[i] != "") last = (int)i;
    return last;
  }

  // ------------------------------------------------------------- main entry
  std::string last_sig;
  bool run(const Case &c, std::string *prop, std::string *msg) {
    case_hash = fnv1a(c.str());
    bool ok = true;
    try {
      record(c);
      FsModel full;
      for (size_t ev = 0; ev < trace.size(); ev++) full.apply(trace[ev], ev);
      std::string why;
      if (!full.matches_dir(dir, &why)) {
        rep->count("recorder_selfcheck_failed");
        rep->notes.push_back("recorder self-check failed (harness error, case skipped): " + why);
        cleanup();
        return true;
      }
      rep->count("traces_validated");
      analyse(full);
      // candidate crash points: after every state-changing event, plus the very end
      std::vector<size_t> points;
      {
        FsModel probe;
        for (size_t ev = 0; ev < trace.size(); ev++)
          if (probe.apply(trace[ev], ev)) points.push_back(ev + 1);
      }
      rep->count("crash_points_total", (long long)points.size());
      // budget: keep every point if affordable, else all directory/sync points plus a seeded sample
      int per_point = P.only_maximal ? 1 : (4 + (P.torn ? 2 : 0) + P.sampled_per_point);
      std::set<size_t> chosen;
      uint64_t rng = case_hash ^ 0x5bd1e995;
      if ((long)points.size() * per_point <= P.max_images) chosen.insert(points.begin(), points.end());
      else {
        std::vector<size_t> prio, rest;
        for (size_t p : points) {
          const IoEvent &e = trace[p - 1];
          bool interesting = e.kind != IO_WRITE || strcmp(io_file_class(e.path), "table") != 0;
          if (e.kind == IO_WRITE && !strcmp(io_file_class(e.path), "log")) interesting = (splitmix(rng) % 3) == 0;
          (interesting ? prio : rest).push_back(p);
        }
        long quota = P.max_images / per_point;
        for (size_t i = 0; i < prio.size() && (long)chosen.size() < quota; i++) {
          size_t j = i + (size_t)(splitmix(rng) % (prio.size() - i));
          std::swap(prio[i], prio[j]);
          chosen.insert(prio[i]);
        }
        for (size_t i = 0; i < rest.size() && (long)chosen.size() < quota; i++) {
          size_t j = i + (size_t)(splitmix(rng) % (rest.size() - i));
          std::swap(rest[i], rest[j]);
          chosen.insert(rest[i]);
        }
      }
      rep->count("crash_points_explored", (long long)chosen.size());
      FsModel m;
      size_t ev = 0;
      for (size_t t : chosen) {
        if (now_s() > deadline) { rep->count("history_cut_by_budget"); break; }
        while (ev < t) { m.apply(trace[ev], ev); ev++; }
        int opidx = op_index_at(t - 1);
        if (P.only_maximal) {
          check_image(m, m.canonical(1), t, opidx);
        } else {
          for (int k = 0; k < 4; k++) check_image(m, m.canonical(k), t, opidx);
          if (P.torn && trace[t - 1].kind == IO_WRITE) {
            const FsInode &in = m.inodes[m.last_written_inode];
            size_t wl = in.written - in.last_write_start;
            // inside the 7-byte record header, exactly after it, somewhere in the payload, one byte short of the end
            size_t cuts[4] = {1 + (size_t)(splitmix(rng) % 6), wl > 7 ? (size_t)7 : 0, 1 + (size_t)(splitmix(rng) % (wl > 1 ? wl - 1 : 1)), wl > 8 ? wl - 1 : 0};
            for (size_t cu : cuts) {
              FsImage ti;
              if (cu && m.torn(cu, &ti)) check_image(m, ti, t, opidx);
            }
          }
          // every image the model allows at this point, when there are at most 64 of them (extreme lengths per file)
          std::vector<FsImage> all;
          if (m.enumerate_all(64, &all)) {
            rep->count("crash_points_with_all_images");
            for (auto &ai : all) check_image(m, ai, t, opidx);
          } else {
            for (int k = 0; k < P.sampled_per_point; k++) check_image(m, m.sampled(rng), t, opidx);
          }
        }
      }
      rep->count("histories");
      rep->count("writes", (long long)writes.size());
      if (concurrent_blocks) { rep->count("class.histories_with_concurrent_writers"); rep->count("concurrent_writer_blocks", concurrent_blocks); }
    } catch (const Violation &v) {
      ok = false;
      *prop = v.prop;
      *msg = v.msg;
      last_sig = v.sig;
      if (sched_active()) sched_end();
    }
    cleanup();
    return ok;
  }

  void cleanup() {
    if (getenv("VF_KEEP")) { std::string cmd = "rm -rf /tmp/vf-keep; cp -r " + img + " /tmp/vf-keep 2>/dev/null"; if (system(cmd.c_str())) {} }
    io_reset();
    rm_rf(dir);
    rm_rf(img);
  }
};

static Params params_for(const std::string &kind_in) {
  Params p;
  std::string kind = kind_in;
  bool thorough = false;
  size_t dash = kind.find('-');
  if (dash != std::string::npos) { thorough = kind.substr(dash + 1) == "thorough"; kind = kind.substr(0, dash); }
  p.kind = kind;
  p.max_images = thorough ? 4000 : 350;
  if (kind == "C03") { p.only_maximal = true; p.max_images = thorough ? 3000 : 400; }
  if (kind == "C05" || kind == "C03") { p.nested_every = thorough ? 6 : 25; p.max_nested = thorough ? 60 : 12; }
  if (kind == "C04") { p.sampled_per_point = 2; }
  if (thorough) p.sampled_per_point = 3;
  return p;
}

int main(int argc, char **argv) {
  std::string replay, kind = "C02", out = "";
  uint64_t seed = 1;
  long count = 10;
  double budget = 1e9;
  int maxsize = 100;
  bool verbose = false;
  for (int i = 1; i < argc; i++) {
    std::string a = argv[i];
    auto next = [&]() -> std::string { return (i + 1 < argc) ? argv[++i] : ""; };
    if (a == "--replay") replay = next();
    else if (a == "--kind") kind = next();
    else if (a == "--seed") seed = strtoull(next().c_str(), nullptr, 10);
    else if (a == "--count") count = atol(next().c_str());
    else if (a == "--worker") g_worker = atoi(next().c_str());
    else if (a == "--out") out = next();
    else if (a == "--budget") budget = atof(next().c_str());
    else if (a == "--maxsize") maxsize = atoi(next().c_str());
    else if (a == "--known") { std::string k = next(); size_t p = 0; while (p <= k.size()) { size_t q = k.find(',', p); if (q == std::string::npos) q = k.size(); if (q > p) g_known.insert(k.substr(p, q - p)); p = q + 1; } }
    else if (a == "-v") verbose = true;
  }
  signal(SIGPIPE, SIG_IGN);
  setvbuf(stdout, nullptr, _IOLBF, 0);
  sched_set_fatal_hook(fatal_hook);
  g_out_dir = out;
  Report rep;
  int rc = 0;
  Params P = params_for(kind);
  if (!replay.empty()) {
    std::string text;
    if (!read_file(replay, text)) { fprintf(stderr, "cannot read %s\n", replay.c_str()); return 2; }
    g_current_text = text;
    Case c = parse_case(text);
    for (auto &op : c.ops) if (op.name == "params") { if (op.has("kind")) P = params_for(op.get("kind")); if (op.has("max_images")) P.max_images = op.geti("max_images"); }
    P.max_images = 100000;  // replays explore every crash point
    CrashRunner r(&rep, P);
    r.verbose = verbose;
    std::string prop, msg;
    if (!r.run(c, &prop, &msg)) { printf("FAIL property=%s%s msg=%s\n", prop.c_str(), r.last_sig.empty() ? "" : (" sig=" + r.last_sig).c_str(), msg.c_str()); rc = 3; }
    else printf("PASS images=%ld\n", r.images_done);
    scratch_cleanup();
    return rc;
  }
  double t0 = now_s();
  for (long i = 0; i < count; i++) {
    if (now_s() - t0 > budget) { rep.count("budget_exhausted"); break; }
    uint64_t cs = seed * 1000003ULL + (uint64_t)g_worker * 7919ULL + (uint64_t)i;
    int size = (int)((i * 7) % (maxsize + 1));
    std::string text = gen_case(kind.c_str(), cs, size);
    text += "params kind=" + kind + "\n";
    g_current_text = text;
    if (!out.empty()) write_file(out + sfmt("/w%d.current.case", g_worker), text);
    Case c = parse_case(text);
    CrashRunner r(&rep, P);
    r.deadline = t0 + budget + 3;
    std::string prop, msg;
    bool ok = r.run(c, &prop, &msg);
    rep.count("cases");
    if (!ok) {
      std::string fn = out.empty() ? std::string("failing.case") : out + sfmt("/w%d.failing.case", g_worker);
      write_file(fn, text);
      printf("FAIL property=%s case=%s%s msg=%s\n", prop.c_str(), fn.c_str(), r.last_sig.empty() ? "" : (" sig=" + r.last_sig).c_str(), msg.c_str());
      rc = 3;
      break;
    }
    if (i < 2) rep.sample(text.size() > 1200 ? text.substr(0, 1200) + "...\n" : text);
  }
  if (!out.empty()) {
    unlink((out + sfmt("/w%d.current.case", g_worker)).c_str());
    write_file(out + sfmt("/w%d.json", g_worker), rep.json());
  }
  scratch_cleanup();
  return rc;
}
