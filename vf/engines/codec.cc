// codec — format oracles against the independent reference codecs (C15, C16, C17 parts).
//
// Every case is one text line (see parse below).  lcdb's writer/reader,
// table builder/reader, Snappy, CRC-32C, varints, separators and version
// edits are compared with vf/ref/ref.h, which shares no code with lcdb.
#include <signal.h>
#include <stdio.h>
#include <stdlib.h>
#include <string.h>
#include <time.h>
#include <unistd.h>

#include <algorithm>
#include <functional>
#include <map>
#include <set>
#include <string>
#include <vector>

extern "C" {
#include "util/buffer.h"
#include "util/slice.h"
#include "util/coding.h"
#include "util/crc32c.h"
#include "util/snappy.h"
#include "util/comparator.h"
#include "util/bloom.h"
#include "util/cache.h"
#include "util/options.h"
#include "util/env.h"
#include "util/status.h"
#include "util/internal.h"
#include "log_writer.h"
#include "log_reader.h"
#include "log_format.h"
#include "version_edit.h"
#include "dbformat.h"
#include "table/table.h"
#include "table/table_builder.h"
#include "table/iterator.h"
}

#include "../case.h"
#include "../ref/ref.h"
#include "../util.h"

namespace vf {
std::string gen_case(const char *kind, uint64_t seed, int size);
}
using namespace vf;

struct Violation { std::string prop, msg, sig; };
#define VF_FAIL(prop, ...) throw Violation{prop, sfmt(__VA_ARGS__), ""}

static std::set<std::string> g_known;
static Report *g_rep;

static ldb_slice_t sl(const std::string &s) {
  ldb_slice_t x;
  x.data = (uint8_t *)s.data();
  x.size = s.size();
  x.alloc = 0;
  return x;
}
static std::string str(const ldb_slice_t &s) { return std::string((const char *)s.data, s.size); }

static std::vector<long> parse_list(const std::string &s) {
  std::vector<long> v;
  size_t i = 0;
  while (i < s.size()) {
    size_t j = s.find(',', i);
    if (j == std::string::npos) j = s.size();
    if (j > i) v.push_back(atol(s.substr(i, j - i).c_str()));
    i = j + 1;
  }
  return v;
}

static std::string rec_bytes(uint64_t seed, size_t idx, size_t len) {
  std::string o;
  expand_bytes(sfmt("r%llu.%zu", (unsigned long long)(seed * 131 + idx), len), o);
  return o;
}

// ============================================================== C15: log ====
struct Reported { size_t bytes = 0; int calls = 0; };
static void on_corruption(ldb_reporter_t *r, size_t bytes, int status) {
  Reported *rp = (Reported *)r->dst;  // dst is an opaque slot we own here
  rp->bytes += bytes;
  rp->calls++;
  (void)status;
}

static std::string lcdb_log_write(const std::vector<std::string> &recs, uint64_t initial_len) {
  ldb_writer_t lw;
  ldb_buffer_t dst;
  ldb_buffer_init(&dst);
  ldb_writer_init(&lw, NULL, initial_len);
  lw.dst = &dst;
  for (auto &r : recs) {
    ldb_slice_t s = sl(r);
    int rc = ldb_writer_add_record(&lw, &s);
    if (rc != LDB_OK) { ldb_buffer_clear(&dst); VF_FAIL("C15", "ldb_writer_add_record returned %d on an in-memory destination", rc); }
  }
  std::string out((const char *)dst.data, dst.size);
  ldb_buffer_clear(&dst);
  return out;
}

static std::vector<std::string> lcdb_log_read(const std::string &bytes, Reported *rp, uint64_t initial_offset = 0) {
  ldb_reader_t lr;
  ldb_reporter_t rep;
  memset(&rep, 0, sizeof rep);
  rep.dst = (FILE *)rp;
  rep.corruption = on_corruption;
  ldb_slice_t src = sl(bytes);
  ldb_reader_init(&lr, NULL, &rep, 1, initial_offset);
  lr.src = &src;
  std::vector<std::string> out;
  ldb_slice_t rec;
  ldb_buffer_t scratch;
  ldb_buffer_init(&scratch);
  int guard = 0;
  while (ldb_reader_read_record(&lr, &rec, &scratch)) {
    out.push_back(str(rec));
    if (++guard > 10000000) VF_FAIL("C15", "reader does not terminate");
  }
  ldb_buffer_clear(&scratch);
  ldb_reader_clear(&lr);
  return out;
}

// does walking the (possibly damaged) bytes hit the documented zero-header tolerance?
static bool hits_zero_header(const std::string &file) {
  size_t pos = 0;
  while (pos < file.size()) {
    size_t block_end = std::min(file.size(), (pos / ref::kLogBlock + 1) * ref::kLogBlock);
    if (block_end - pos < ref::kLogHeader) { pos = (pos / ref::kLogBlock + 1) * ref::kLogBlock; continue; }
    const uint8_t *h = (const uint8_t *)file.data() + pos;
    size_t len = h[4] | (h[5] << 8);
    int type = h[6];
    if (type == 0 && len == 0) return true;
    if (pos + ref::kLogHeader + len > block_end) { pos = (pos / ref::kLogBlock + 1) * ref::kLogBlock; continue; }
    std::string crcin;
    crcin.push_back((char)type);
    crcin.append(file, pos + ref::kLogHeader, len);
    if (ref::crc_unmask(ref::get_fixed32(h)) != ref::crc32c(crcin)) { pos = (pos / ref::kLogBlock + 1) * ref::kLogBlock; continue; }
    pos += ref::kLogHeader + len;
  }
  return false;
}

static void check_log_case(const Op &op) {
  uint64_t seed = (uint64_t)op.geti("seed", 1);
  std::vector<long> pre = parse_list(op.get("pre")), rl = parse_list(op.get("recs"));
  std::vector<std::string> a, b, all;
  for (size_t i = 0; i < pre.size(); i++) a.push_back(rec_bytes(seed, i, (size_t)pre[i]));
  for (size_t i = 0; i < rl.size(); i++) b.push_back(rec_bytes(seed, 1000 + i, (size_t)rl[i]));
  all = a;
  all.insert(all.end(), b.begin(), b.end());
  // writer A from offset 0, writer B created on the existing log (the reuse path)
  std::string fa = lcdb_log_write(a, 0);
  std::string fb = lcdb_log_write(b, fa.size());
  std::string file = fa + fb;
  // 1. bytes equal the reference encoding
  std::string want;
  for (auto &r : all) ref::log_append(want, r);
  if (file != want) {
    size_t d = 0;
    while (d < file.size() && d < want.size() && file[d] == want[d]) d++;
    VF_FAIL("C15", "writer output differs from the reference encoding at byte %zu (lcdb %zu bytes, reference %zu bytes)", d, file.size(), want.size());
  }
  bool frag = false;
  for (auto &r : all) if (r.size() + ref::kLogHeader > ref::kLogBlock - 0) frag = true;
  if (file.size() > ref::kLogBlock) frag = true;
  // 2. both decoders return the records
  Reported rp;
  std::vector<std::string> got = lcdb_log_read(file, &rp);
  if (got != all) VF_FAIL("C15", "reader returns %zu records, %zu were written (or contents differ)", got.size(), all.size());
  if (rp.calls) VF_FAIL("C15", "reader reports corruption (%d calls, %zu bytes) on an undamaged log", rp.calls, rp.bytes);
  ref::LogDecode rd = ref::log_decode(file);
  if (rd.records != all || rd.corruption_events) VF_FAIL("C15", "reference decoder disagrees on lcdb's bytes (%zu records)", rd.records.size());
  g_rep->count("log.roundtrips");
  {
    // classification of the generated log
    bool multi = false, exact = false, empty_rec = false;
    for (auto &r : all) {
      if (r.size() > ref::kLogBlock - ref::kLogHeader) multi = true;
      if (r.empty()) empty_rec = true;
    }
    size_t pos = 0;
    for (size_t i = 0; i < rd.record_end.size(); i++) { pos = rd.record_end[i]; size_t left = ref::kLogBlock - pos % ref::kLogBlock; if (left < ref::kLogHeader || left == ref::kLogBlock || left == ref::kLogHeader) exact = true; }
    if (multi) g_rep->count("class.record_spans_blocks");
    if (exact) g_rep->count("class.record_ends_within_7_bytes_of_block_end");
    if (empty_rec) g_rep->count("class.empty_record");
    if (!a.empty()) g_rep->count("class.second_writer_on_existing_log");
    if (file.size() > ref::kLogBlock) g_rep->count("class.log>1block");
    if (op.has("cuts")) g_rep->count(op.get("cuts") == "all" ? "class.every_cut_offset" : "class.selected_cut_offsets");
  }
  uint64_t fp = fnv1a(op.str());
  if (frag) g_rep->fp("C15.nt", fp);
  // 3. truncation
  if (op.has("cuts")) {
    std::vector<long> cuts = parse_list(op.get("cuts"));
    if (op.get("cuts") == "all") { cuts.clear(); for (size_t c = 0; c <= file.size(); c++) cuts.push_back((long)c); }
    for (long c : cuts) {
      if (c < 0 || (size_t)c > file.size()) continue;
      std::string cut = file.substr(0, (size_t)c);
      Reported r2;
      std::vector<std::string> g2 = lcdb_log_read(cut, &r2);
      size_t expect = 0;
      while (expect < rd.record_end.size() && rd.record_end[expect] <= (size_t)c) expect++;
      if (g2.size() != expect) VF_FAIL("C15", "log cut at %ld: reader returns %zu records, exactly %zu lie wholly before the cut", c, g2.size(), expect);
      for (size_t i = 0; i < expect; i++) if (g2[i] != all[i]) VF_FAIL("C15", "log cut at %ld: record %zu differs", c, i);
      if (r2.calls) VF_FAIL("C15", "log cut at %ld: reader reports corruption for a torn tail", c);
      g_rep->count("log.truncations");
    }
    g_rep->fp("C15.nt", fnv1a(op.str() + "/cuts"));
  }
  // 4. alteration
  if (op.has("mut")) {
    // mut=off:len:mode:val ; modes: x (xor val), s (set val), z (zero fill)
    std::string m = op.get("mut");
    long off = 0, len = 1, val = 1;
    char mode = 'x';
    sscanf(m.c_str(), "%ld:%ld:%c:%ld", &off, &len, &mode, &val);
    if (file.empty()) return;
    off = off % (long)file.size();
    if (off < 0) off = 0;
    if (len < 1) len = 1;
    if ((size_t)(off + len) > file.size()) len = (long)file.size() - off;
    std::string dmg = file;
    bool changed = false;
    for (long i = 0; i < len; i++) {
      char before = dmg[off + i];
      if (mode == 'x') dmg[off + i] = (char)(before ^ (char)(val ? val : 1));
      else if (mode == 's') dmg[off + i] = (char)val;
      else dmg[off + i] = 0;
      if (dmg[off + i] != before) changed = true;
    }
    if (!changed) return;
    Reported r3;
    std::vector<std::string> g3 = lcdb_log_read(dmg, &r3);
    // (a) subsequence of the written records
    size_t j = 0;
    std::vector<bool> present(all.size(), false);
    for (auto &g : g3) {
      while (j < all.size() && all[j] != g) j++;
      if (j == all.size()) VF_FAIL("C15", "after altering %ld byte(s) at %ld the reader returns a record that was never written (or out of order)", len, off);
      present[j] = true;
      j++;
    }
    // (b) records wholly inside untouched blocks after the damage are returned
    size_t dmg_block_end = ((size_t)(off + len - 1) / ref::kLogBlock + 1) * ref::kLogBlock;
    size_t start = 0;
    bool missing = false;
    for (size_t i = 0; i < all.size(); i++) {
      size_t end = rd.record_end[i];
      // record start: previous end, rounded up if a trailer was skipped (conservative: use end - size - headers)
      size_t rstart = start;
      start = end;
      if (!present[i]) {
        missing = true;
        // a record that begins in a later block than the damage and is complete must be delivered
        size_t first_byte_block = (rstart + ((ref::kLogBlock - rstart % ref::kLogBlock) < ref::kLogHeader ? (ref::kLogBlock - rstart % ref::kLogBlock) : 0));
        if (first_byte_block >= dmg_block_end)
          VF_FAIL("C15", "after altering %ld byte(s) at %ld record %zu, which lies entirely in later intact blocks, is not returned", len, off, i);
      }
    }
    // (c) a lost complete record must be reported -- unless the loss is what a cut of the file would also
    // produce: the damaged bytes make the record at the very end of the file look torn (its header now
    // claims more bytes than the file has, or the header itself is cut), which the truncation clause of
    // the same property requires to be silent.  The reference decoder, run on the damaged bytes, tells
    // which explanation applies.
    ref::LogDecode dd = ref::log_decode(dmg);
    if (missing && r3.calls == 0) {
      if (dd.corruption_events == 0 && dd.torn_tail && !hits_zero_header(dmg)) {
        g_rep->count("log.alteration_equivalent_to_torn_tail");
      } else if (hits_zero_header(dmg)) {
        if (g_known.count("zero-header-silent-skip")) { g_rep->count("known.zero-header-silent-skip"); }
        else throw Violation{"C15", sfmt("altering %ld byte(s) at %ld (mode %c) leaves a header with length 0 and type 0: the reader drops the rest of the block and complete records without reporting", len, off, mode), "zero-header-silent-skip"};
      } else {
        VF_FAIL("C15", "after altering %ld byte(s) at %ld (mode %c val %ld) complete records are missing but the reporter was never called", len, off, mode, val);
      }
    }
    // differential: the documented reader semantics applied by the reference decoder give the same records
    if (!hits_zero_header(dmg) && dd.records != g3) {
      g_rep->count("log.reference_decoder_disagreements");
      VF_FAIL("C15", "after altering %ld byte(s) at %ld (mode %c val %ld) lcdb's reader returns %zu records, the reference decoder %zu", len, off, mode, val, g3.size(), dd.records.size());
    }
    g_rep->count("log.alterations");
    g_rep->count(mode == 'x' ? (len > 1 ? "class.alter_xor_run" : "class.alter_bitflip") : mode == 's' ? "class.alter_set_byte" : "class.alter_zero_fill");
    g_rep->count((size_t)(off % (long)ref::kLogBlock) < 64 ? "class.alter_near_block_start" : "class.alter_inside_block");
    if (missing) g_rep->count(r3.calls ? "class.alter_loss_reported" : "class.alter_loss_silent_torn_tail_or_known"); else g_rep->count("class.alter_no_record_lost");
    g_rep->fp("C15.nt", fnv1a(op.str() + "/mut"));
  }
}

// CRC-32C against the bitwise reference
static void check_crc_case(const Op &op) {
  uint64_t seed = (uint64_t)op.geti("seed", 1);
  long maxlen = op.geti("maxlen", 300);
  long align = op.geti("align", 0);
  std::string buf;
  expand_bytes(sfmt("r%llu.%ld", (unsigned long long)seed, maxlen + 16), buf);
  const uint8_t *p = (const uint8_t *)buf.data() + (align & 15);
  long step = op.geti("step", 1);
  for (long n = 0; n <= maxlen; n += step) {
    uint32_t got = ldb_crc32c_extend(0, p, (size_t)n);
    uint32_t want = ref::crc32c_bitwise(0, p, (size_t)n);
    if (got != want) VF_FAIL("C15", "crc32c of %ld bytes (alignment %ld) is %08x, bitwise reference %08x", n, align & 15, got, want);
    if (n >= 2) {
      long k = (long)(splitmix(seed) % (uint64_t)n);
      uint32_t part = ldb_crc32c_extend(ldb_crc32c_extend(0, p, (size_t)k), p + k, (size_t)(n - k));
      if (part != want) VF_FAIL("C15", "crc32c extend(crc(a),b) != crc(a||b) for split %ld/%ld", k, n);
    }
    if (ldb_crc32c_unmask(ldb_crc32c_mask(got)) != got) VF_FAIL("C15", "crc mask/unmask are not inverse for %08x", got);
    if (ldb_crc32c_mask(got) != ref::crc_mask(got)) VF_FAIL("C15", "crc mask differs from the format's constant for %08x", got);
    g_rep->count("crc.checks");
  }
  g_rep->fp("C15.nt", fnv1a(op.str()));
}

// ============================================================ C16: tables ===
struct CmpCtx { int kind; };  // 0 bytewise builtin, 1 reverse, 2 lenfirst
static int cmp_bytes2(const void *a, size_t an, const void *b, size_t bn) {
  size_t n = an < bn ? an : bn;
  int r = n ? memcmp(a, b, n) : 0;
  if (r) return r;
  return an < bn ? -1 : (an > bn ? 1 : 0);
}
static int c_rev(const ldb_comparator_t *, const ldb_slice_t *x, const ldb_slice_t *y) { return -cmp_bytes2(x->data, x->size, y->data, y->size); }
static int c_len(const ldb_comparator_t *, const ldb_slice_t *x, const ldb_slice_t *y) {
  if (x->size != y->size) return x->size < y->size ? -1 : 1;
  return cmp_bytes2(x->data, x->size, y->data, y->size);
}
static int user_cmp(int kind, const std::string &a, const std::string &b) {
  if (kind == 1) return -cmp_bytes2(a.data(), a.size(), b.data(), b.size());
  if (kind == 2) { if (a.size() != b.size()) return a.size() < b.size() ? -1 : 1; }
  return cmp_bytes2(a.data(), a.size(), b.data(), b.size());
}

struct Got { bool called = false; std::string k, v; };
static void on_get(void *arg, const ldb_slice_t *k, const ldb_slice_t *v) {
  Got *g = (Got *)arg;
  g->called = true;
  g->k = str(*k);
  g->v = str(*v);
}

static void check_table_case(const Op &op) {
  uint64_t seed = (uint64_t)op.geti("seed", 1);
  long n = op.geti("n", 10);
  int ck = (int)op.geti("cmp", 0);
  int ikeys = (int)op.geti("ikeys", 0);
  long vmax = op.geti("vmax", 100);
  long klen = op.geti("klen", 12);
  int prefix = (int)op.geti("prefix", 0);
  // ---- entries: unique user keys from a structured family, sorted by the comparator
  std::set<std::string> ks;
  uint64_t st = seed;
  for (long i = 0; i < n; i++) {
    std::string k;
    uint64_t r = splitmix(st);
    int shape = (int)(r % 10);
    if (shape == 0) k = std::string((size_t)(1 + (r >> 8) % 6), '\xff');
    else if (shape == 1 && i == 0) k = "";
    else {
      if (prefix) k.assign((size_t)prefix, 'p');
      size_t l = 1 + (size_t)((r >> 16) % (uint64_t)(klen > 0 ? klen : 1));
      for (size_t j = 0; j < l; j++) { uint64_t q = splitmix(st); k.push_back((char)("ab\x00\xff\x01z09"[q % 8])); }
    }
    if (ikeys && k.empty()) k = "e";
    ks.insert(k);
  }
  std::vector<std::string> users(ks.begin(), ks.end());
  std::sort(users.begin(), users.end(), [&](const std::string &a, const std::string &b) { return user_cmp(ck, a, b) < 0; });
  std::vector<std::pair<std::string, std::string>> entries;
  uint64_t seq = 1000000;
  for (auto &u : users) {
    uint64_t r = splitmix(st);
    int versions = ikeys ? 1 + (int)(r % 3) : 1;
    for (int v = 0; v < versions; v++) {
      std::string val;
      uint64_t q = splitmix(st);
      long vl = (long)(q % (uint64_t)(vmax + 1));
      if ((q >> 40) % 50 == 0) vl = vmax * 20;
      expand_bytes(sfmt("%c%llu.%ld", ((q >> 32) & 1) ? 'r' : 'c', (unsigned long long)(q & 0xffffff), vl), val);
      std::string key = u;
      if (ikeys) key = ref::ikey_make(u, seq--, (int)((q >> 33) % 4 != 0));
      entries.push_back({key, val});
    }
  }
  // ---- options
  ldb_dbopt_t opt = *ldb_dbopt_default;
  ldb_comparator_t ucmp, icmp;
  memset(&ucmp, 0, sizeof ucmp);
  const ldb_comparator_t *user = ldb_bytewise_comparator;
  if (ck == 1) { ucmp.name = "vf.reverse"; ucmp.compare = c_rev; user = &ucmp; }
  if (ck == 2) { ucmp.name = "vf.lenfirst"; ucmp.compare = c_len; user = &ucmp; }
  ldb_bloom_t *bloom = nullptr, ibloom;
  int bits = (int)op.geti("bloom", 0);
  if (ikeys) { ldb_ikc_init(&icmp, user); opt.comparator = &icmp; } else opt.comparator = user;
  if (bits > 0) {
    bloom = ldb_bloom_create(bits);
    if (ikeys) { ldb_ifp_init(&ibloom, bloom); opt.filter_policy = &ibloom; } else opt.filter_policy = bloom;
  } else opt.filter_policy = NULL;
  opt.block_size = (size_t)op.geti("bs", 4096);
  opt.block_restart_interval = (int)op.geti("ri", 16);
  opt.compression = op.geti("comp", 1) ? LDB_SNAPPY_COMPRESSION : LDB_NO_COMPRESSION;
  opt.paranoid_checks = 1;
  int cache_mode = (int)op.geti("cache", 0);
  ldb_lru_t *cache = nullptr;
  if (cache_mode == 1) cache = ldb_lru_create(1 << 20);
  if (cache_mode == 2) cache = ldb_lru_create(0);
  opt.block_cache = cache;
  std::string path = scratch_root() + "/t.ldb";
  unlink(path.c_str());
  struct Cleanup {
    std::function<void()> f;
    ~Cleanup() { f(); }
  } cl{[&]() { if (bloom) ldb_bloom_destroy(bloom); if (cache) ldb_lru_destroy(cache); unlink(path.c_str()); }};
  // ---- build
  ldb_wfile_t *wf = nullptr;
  if (ldb_truncfile_create(path.c_str(), &wf) != LDB_OK) VF_FAIL("C16", "harness: cannot create %s", path.c_str());
  ldb_tablegen_t *tb = ldb_tablegen_create(&opt, wf);
  for (auto &e : entries) {
    ldb_slice_t k = sl(e.first), v = sl(e.second);
    ldb_tablegen_add(tb, &k, &v);
  }
  int rc = ldb_tablegen_finish(tb);
  uint64_t tsize = ldb_tablegen_size(tb);
  ldb_tablegen_destroy(tb);
  if (rc == LDB_OK) rc = ldb_wfile_close(wf);
  ldb_wfile_destroy(wf);
  if (rc != LDB_OK) VF_FAIL("C16", "table build failed rc=%d", rc);
  std::string bytes;
  read_file(path, bytes);
  if (bytes.size() != tsize) VF_FAIL("C16", "builder reports size %llu, file has %zu bytes", (unsigned long long)tsize, bytes.size());
  // ---- reference decode
  ref::Table rt;
  std::string err;
  if (!ref::table_decode(bytes, &rt, &err)) VF_FAIL("C16", "reference reader cannot decode the table: %s", err.c_str());
  if (rt.entries.size() != entries.size()) VF_FAIL("C16", "reference reader finds %zu entries, %zu were added", rt.entries.size(), entries.size());
  for (size_t i = 0; i < entries.size(); i++)
    if (rt.entries[i].key != entries[i].first || rt.entries[i].value != entries[i].second)
      VF_FAIL("C16", "reference reader: entry %zu differs from the input", i);
  auto kcmp = [&](const std::string &a, const std::string &b) -> int {
    if (!ikeys) return user_cmp(ck, a, b);
    int r = user_cmp(ck, a.substr(0, a.size() - 8), b.substr(0, b.size() - 8));
    if (r) return r;
    uint64_t ta = ref::get_fixed64((const uint8_t *)a.data() + a.size() - 8), tb2 = ref::get_fixed64((const uint8_t *)b.data() + b.size() - 8);
    return ta > tb2 ? -1 : (ta < tb2 ? 1 : 0);
  };
  // index keys: last(block i) <= idx_i < first(block i+1)
  for (size_t b = 0; b < rt.data_blocks; b++) {
    size_t first = rt.block_first[b], last = (b + 1 < rt.data_blocks ? rt.block_first[b + 1] : rt.entries.size()) - 1;
    if (first > last) VF_FAIL("C16", "data block %zu is empty", b);
    const std::string &ik = rt.index_keys[b];
    if (ikeys && ik.size() < 8) VF_FAIL("C16", "index key %zu shorter than 8 bytes", b);
    if (kcmp(rt.entries[last].key, ik) > 0) VF_FAIL("C16", "index key %zu is smaller than the last key of its block", b);
    if (b + 1 < rt.data_blocks && kcmp(ik, rt.entries[rt.block_first[b + 1]].key) >= 0) VF_FAIL("C16", "index key %zu is not smaller than the first key of the next block", b);
  }
  // filter block: every key of each block must be accepted by the reference bloom for that block's offset
  bool any_compressed = false;
  for (bool c : rt.block_compressed) any_compressed |= c;
  if (bits > 0) {
    if (rt.filter_name.empty()) VF_FAIL("C16", "filter policy configured but the metaindex has no filter entry");
    for (size_t b = 0; b < rt.data_blocks; b++) {
      size_t first = rt.block_first[b], last = (b + 1 < rt.data_blocks ? rt.block_first[b + 1] : rt.entries.size());
      for (size_t i = first; i < last; i++) {
        std::string fk = ikeys ? rt.entries[i].key.substr(0, rt.entries[i].key.size() - 8) : rt.entries[i].key;
        bool wf2;
        if (!ref::filter_block_may_match(rt.filter_block, rt.block_handles[b].offset, fk, &wf2))
          VF_FAIL("C16", "reference bloom rejects key %zu of block %zu (offset %llu): filter block does not follow the standard layout/hash", i, b, (unsigned long long)rt.block_handles[b].offset);
        if (!wf2) VF_FAIL("C16", "filter block layout is malformed");
      }
    }
  } else if (!rt.filter_name.empty()) VF_FAIL("C16", "no filter policy configured but the table has a filter block");
  // ---- lcdb reader
  ldb_rfile_t *rf = nullptr;
  if (ldb_randfile_create(path.c_str(), &rf, (int)op.geti("mmap", 0)) != LDB_OK) VF_FAIL("C16", "harness: cannot open table file");
  ldb_table_t *table = nullptr;
  rc = ldb_table_open(&opt, rf, bytes.size(), &table);
  if (rc != LDB_OK) { ldb_rfile_destroy(rf); VF_FAIL("C16", "ldb_table_open fails rc=%d on a freshly built table", rc); }
  struct Cleanup2 { std::function<void()> f; ~Cleanup2() { f(); } } cl2{[&]() { ldb_table_destroy(table); ldb_rfile_destroy(rf); }};
  ldb_readopt_t ro = *ldb_readopt_default;
  ro.verify_checksums = 1;
  ro.fill_cache = (int)op.geti("fill", 1);
  ldb_iter_t *it = ldb_tableiter_create(table, &ro);
  size_t i = 0;
  for (ldb_iter_first(it); ldb_iter_valid(it); ldb_iter_next(it), i++) {
    if (i >= entries.size()) { ldb_iter_destroy(it); VF_FAIL("C16", "forward iteration yields more than the %zu entries added", entries.size()); }
    if (str(ldb_iter_key(it)) != entries[i].first || str(ldb_iter_value(it)) != entries[i].second) { ldb_iter_destroy(it); VF_FAIL("C16", "forward iteration: entry %zu differs", i); }
  }
  if (ldb_iter_status(it) != LDB_OK || i != entries.size()) { int s = ldb_iter_status(it); ldb_iter_destroy(it); VF_FAIL("C16", "forward iteration ends after %zu of %zu entries (status %d)", i, entries.size(), s); }
  i = entries.size();
  for (ldb_iter_last(it); ldb_iter_valid(it); ldb_iter_prev(it)) {
    if (i == 0) { ldb_iter_destroy(it); VF_FAIL("C16", "backward iteration yields too many entries"); }
    i--;
    if (str(ldb_iter_key(it)) != entries[i].first || str(ldb_iter_value(it)) != entries[i].second) { ldb_iter_destroy(it); VF_FAIL("C16", "backward iteration: entry %zu differs", i); }
  }
  if (i != 0) { ldb_iter_destroy(it); VF_FAIL("C16", "backward iteration stops with %zu entries unvisited", i); }
  // seeks: lower bound for present keys, neighbours, before first, after last
  std::vector<std::string> targets;
  uint64_t st2 = seed ^ 0x77;
  for (int t = 0; t < 24 && !entries.empty(); t++) {
    const std::string &k = entries[splitmix(st2) % entries.size()].first;
    targets.push_back(k);
    std::string u = ikeys ? k.substr(0, k.size() - 8) : k;
    std::string u2 = u + std::string(1, '\0');
    std::string u3 = u.empty() ? u : u.substr(0, u.size() - 1);
    targets.push_back(ikeys ? ref::ikey_make(u2, (1ull << 56) - 1, 1) : u2);
    targets.push_back(ikeys ? ref::ikey_make(u3, (1ull << 56) - 1, 1) : u3);
  }
  targets.push_back(ikeys ? ref::ikey_make("", (1ull << 56) - 1, 1) : std::string());
  targets.push_back(ikeys ? ref::ikey_make(std::string(9, '\xff'), 0, 0) : std::string(9, '\xff'));
  for (auto &t : targets) {
    ldb_slice_t ts = sl(t);
    ldb_iter_seek(it, &ts);
    size_t lb = 0;
    while (lb < entries.size() && kcmp(entries[lb].first, t) < 0) lb++;
    bool v = ldb_iter_valid(it);
    if (v != (lb < entries.size())) { ldb_iter_destroy(it); VF_FAIL("C16", "seek(%s): valid=%d, expected %d", lit_token(t).substr(0, 40).c_str(), (int)v, (int)(lb < entries.size())); }
    if (v && str(ldb_iter_key(it)) != entries[lb].first) { ldb_iter_destroy(it); VF_FAIL("C16", "seek(%s) lands on the wrong entry (expected index %zu)", lit_token(t).substr(0, 40).c_str(), lb); }
    g_rep->count("table.seeks");
  }
  ldb_iter_destroy(it);
  // lookups: every present key delivered (filters never reject a present key), absent keys not
  for (size_t e = 0; e < entries.size(); e += (entries.size() > 400 ? entries.size() / 400 : 1)) {
    Got g;
    ldb_slice_t ks2 = sl(entries[e].first);
    rc = ldb_table_internal_get(table, &ro, &ks2, &g, on_get);
    if (rc != LDB_OK) VF_FAIL("C16", "lookup of present key %zu fails rc=%d", e, rc);
    if (!g.called || g.k != entries[e].first || g.v != entries[e].second) VF_FAIL("C16", "lookup of present key %zu does not deliver it (%s)", e, g.called ? "other entry delivered" : "nothing delivered; filter or index rejected it");
  }
  for (auto &t : targets) {
    Got g;
    ldb_slice_t ts = sl(t);
    rc = ldb_table_internal_get(table, &ro, &ts, &g, on_get);
    if (rc != LDB_OK) VF_FAIL("C16", "lookup rc=%d", rc);
    size_t lb = 0;
    while (lb < entries.size() && kcmp(entries[lb].first, t) < 0) lb++;
    if (g.called) {
      // the table hands over the first entry >= target (caller filters); it must be that entry
      if (lb >= entries.size() || g.k != entries[lb].first) VF_FAIL("C16", "lookup(%s) delivers an entry that is not the first one >= target", lit_token(t).substr(0, 40).c_str());
    }
  }
  g_rep->count("table.roundtrips");
  g_rep->count("table.entries", (long long)entries.size());
  if (rt.data_blocks >= 2 || any_compressed || bits > 0) g_rep->fp("C16.nt", fnv1a(bytes));
  if (rt.data_blocks >= 2) g_rep->count("class.table>=2blocks");
  if (any_compressed) g_rep->count("class.block_stored_compressed");
  if (bits > 0) g_rep->count("class.filter");
  if (ikeys) g_rep->count("class.internal_keys");
  if (ck) g_rep->count("class.custom_comparator");
}

static void check_snappy_case(const Op &op) {
  uint64_t seed = (uint64_t)op.geti("seed", 1);
  long len = op.geti("len", 100);
  std::string mode = op.get("mode", "mixed");
  std::string in;
  uint64_t st = seed;
  if (mode == "rand") expand_bytes(sfmt("r%llu.%ld", (unsigned long long)seed, len), in);
  else if (mode == "text") expand_bytes(sfmt("c%llu.%ld", (unsigned long long)seed, len), in);
  else {
    while ((long)in.size() < len) {
      uint64_t r = splitmix(st);
      size_t l = 1 + (r >> 8) % 90;
      if ((r & 3) == 0) l = 60 + (r >> 20) % 12;  // around the 64..68 copy boundaries
      switch ((r >> 2) & 3) {
        case 0: in.append(l, (char)(r >> 40)); break;
        case 1: { std::string t; expand_bytes(sfmt("r%llu.%zu", (unsigned long long)(r & 0xffff), l), t); in += t; break; }
        case 2: if (!in.empty()) { size_t off = (r >> 30) % in.size(); in += in.substr(off, l); break; }  /* fallthrough */
        default: { std::string t; expand_bytes(sfmt("c%llu.%zu", (unsigned long long)(r & 0xffff), l), t); in += t; }
      }
    }
    in.resize((size_t)len);
  }
  size_t zn = 0;
  if (!snappy_encode_size(&zn, in.size())) VF_FAIL("C16", "snappy_encode_size rejects %zu bytes", in.size());
  std::string z(zn, '\0');
  size_t used = snappy_encode((uint8_t *)&z[0], (const uint8_t *)in.data(), in.size());
  if (used > zn) VF_FAIL("C16", "snappy_encode wrote %zu bytes, bound was %zu", used, zn);
  z.resize(used);
  std::string back;
  if (!ref::snappy_uncompress((const uint8_t *)z.data(), z.size(), &back) || back != in) VF_FAIL("C16", "reference Snappy decoder does not invert snappy_encode (%zu bytes in)", in.size());
  size_t dn = 0;
  if (!snappy_decode_size(&dn, (const uint8_t *)z.data(), z.size()) || dn != in.size()) VF_FAIL("C16", "snappy_decode_size disagrees (%zu vs %zu)", dn, in.size());
  std::string d(dn, '\0');
  if (!snappy_decode((uint8_t *)&d[0], (const uint8_t *)z.data(), z.size()) || d != in) VF_FAIL("C16", "snappy_decode(snappy_encode(x)) != x for %zu bytes", in.size());
  g_rep->count("snappy.roundtrips");
  // differential on damaged streams: whatever lcdb accepts, the reference accepts with equal output
  long muts = op.geti("muts", 0);
  for (long m = 0; m < muts && !z.empty(); m++) {
    std::string zz = z;
    uint64_t r = splitmix(st);
    size_t pos = r % zz.size();
    zz[pos] = (char)(zz[pos] ^ (1 << ((r >> 20) & 7)));
    if ((r >> 30) & 1) zz.resize(pos + 1);
    size_t n2 = 0;
    if (!snappy_decode_size(&n2, (const uint8_t *)zz.data(), zz.size())) continue;
    if (n2 > (64u << 20)) continue;
    std::string o(n2, '\0');
    int ok = snappy_decode((uint8_t *)&o[0], (const uint8_t *)zz.data(), zz.size());
    std::string ro;
    bool rok = ref::snappy_uncompress((const uint8_t *)zz.data(), zz.size(), &ro);
    if (ok && (!rok || ro != o)) VF_FAIL("C16", "snappy_decode accepts a damaged stream that the reference rejects or decodes differently (mutation %ld)", m);
    g_rep->count("snappy.differential");
  }
  if (in.size() >= 64) g_rep->fp("C16.nt", fnv1a(in));
}

// The internal-key comparator wraps the user comparator's separator: whatever spelling the user comparator returns --
// including a physically shorter one that compares EQUAL to start, which the contract start <= sep < limit allows -- the
// internal separator must satisfy start <= sep < limit in internal-key order (it becomes a block's index key).  User
// comparator here: bytewise on the key with trailing 0x00 bytes ignored; its separator strips that padding (after seed C07e).
static size_t padlen(const ldb_slice_t *x) { size_t n = x->size; while (n > 0 && ((const uint8_t *)x->data)[n - 1] == 0) n--; return n; }
static int padnul_compare(const ldb_comparator_t *, const ldb_slice_t *a, const ldb_slice_t *b) {
  size_t na = padlen(a), nb = padlen(b);
  return cmp_bytes2((const char *)a->data, na, (const char *)b->data, nb);
}
static void padnul_separator(const ldb_comparator_t *, ldb_slice_t *start, const ldb_slice_t *) { start->size = padlen(start); }
static void padnul_successor(const ldb_comparator_t *, ldb_slice_t *) {}
static std::string ikey_of(const std::string &u, uint64_t seq, int type) {
  std::string k = u;
  uint64_t tag = (seq << 8) | (uint64_t)type;
  for (int i = 0; i < 8; i++) k.push_back((char)((tag >> (8 * i)) & 0xff));
  return k;
}
static long check_internal_separators(const std::vector<std::string> &all) {
  ldb_comparator_t user;
  memset(&user, 0, sizeof user);
  user.name = "vf.padnul"; user.compare = padnul_compare; user.shortest_separator = padnul_separator; user.short_successor = padnul_successor;
  ldb_comparator_t ikc;
  ldb_ikc_init(&ikc, &user);
  long n = 0;
  for (auto &a : all) {
    if (a.size() > 3) continue;
    for (auto &b : all) {
      if (b.size() > 3) continue;
      ldb_slice_t sa = sl(a), sb = sl(b);
      if (padnul_compare(&user, &sa, &sb) >= 0) continue;
      std::string ia = ikey_of(a, 5 + (n % 7), 1), ib = ikey_of(b, 3 + (n % 5), n % 2);
      ldb_buffer_t st;
      ldb_buffer_init(&st);
      ldb_buffer_set(&st, (const uint8_t *)ia.data(), ia.size());
      ldb_slice_t lim = sl(ib), sia = sl(ia);
      ikc.shortest_separator(&ikc, (ldb_slice_t *)&st, &lim);
      ldb_slice_t sep;
      sep.data = st.data; sep.size = st.size;
      bool bad = st.size < 8 || ikc.compare(&ikc, &sia, &sep) > 0 || ikc.compare(&ikc, &sep, &lim) >= 0;
      std::string seps((const char *)st.data, st.size);
      ldb_buffer_clear(&st);
      if (bad) VF_FAIL("C16", "internal-key shortest_separator(%s, %s) = %s is outside [start, limit) under a user comparator that ignores trailing NUL padding", lit_token(ia).c_str(), lit_token(ib).c_str(), lit_token(seps).c_str());
      n++;
    }
  }
  return n;
}

// separator / successor contract, exhaustive on short strings over a small alphabet
static long check_separators(int maxlen) {
  static const unsigned char alpha[] = {0x00, 0x01, 0x7f, 0xfe, 0xff};
  std::vector<std::string> all{""};
  for (size_t from = 0, l = 0; (int)l < maxlen; l++) {
    size_t end = all.size();
    for (size_t i = from; i < end; i++)
      for (unsigned char c : alpha) all.push_back(all[i] + std::string(1, (char)c));
    from = end;
  }
  long n = 0;
  const ldb_comparator_t *bw = ldb_bytewise_comparator;
  for (auto &a : all) {
    ldb_buffer_t k;
    ldb_buffer_init(&k);
    ldb_buffer_set(&k, (const uint8_t *)a.data(), a.size());
    bw->short_successor(bw, &k);
    std::string s((const char *)k.data, k.size);
    ldb_buffer_clear(&k);
    if (cmp_bytes2(s.data(), s.size(), a.data(), a.size()) < 0) VF_FAIL("C16", "short_successor(%s) = %s is smaller than the key", lit_token(a).c_str(), lit_token(s).c_str());
    n++;
    for (auto &b : all) {
      if (cmp_bytes2(a.data(), a.size(), b.data(), b.size()) >= 0) continue;
      ldb_buffer_t st;
      ldb_buffer_init(&st);
      ldb_buffer_set(&st, (const uint8_t *)a.data(), a.size());
      ldb_slice_t lim = sl(b);
      bw->shortest_separator(bw, &st, &lim);
      std::string sep((const char *)st.data, st.size);
      ldb_buffer_clear(&st);
      if (cmp_bytes2(sep.data(), sep.size(), a.data(), a.size()) < 0 || cmp_bytes2(sep.data(), sep.size(), b.data(), b.size()) >= 0)
        VF_FAIL("C16", "shortest_separator(%s, %s) = %s is outside [start, limit)", lit_token(a).c_str(), lit_token(b).c_str(), lit_token(sep).c_str());
      if (sep.size() > a.size()) VF_FAIL("C16", "shortest_separator(%s, %s) = %s is longer than start", lit_token(a).c_str(), lit_token(b).c_str(), lit_token(sep).c_str());
      n++;
    }
  }
  n += check_internal_separators(all);
  return n;
}

// ====================================================== C17: edits, varints ==
static std::string tok_bytes(const std::string &t) { std::string o; expand_bytes(t, o); return o; }

static ref::Edit parse_edit_case(const Op &op) {
  ref::Edit e;
  if (op.has("cmp")) { e.has_comparator = true; e.comparator = tok_bytes(op.get("cmp")); }
  if (op.has("log")) { e.has_log = true; e.log = strtoull(op.get("log").c_str(), nullptr, 10); }
  if (op.has("prev")) { e.has_prev_log = true; e.prev_log = strtoull(op.get("prev").c_str(), nullptr, 10); }
  if (op.has("next")) { e.has_next = true; e.next_file = strtoull(op.get("next").c_str(), nullptr, 10); }
  if (op.has("seq")) { e.has_last_seq = true; e.last_seq = strtoull(op.get("seq").c_str(), nullptr, 10); }
  for (auto &a : op.args) {
    // cp:<level>:<key>  del:<level>:<num>  add:<level>:<num>:<size>:<small>:<large>
    std::vector<std::string> f;
    size_t i = 0;
    while (i <= a.size()) { size_t j = a.find(':', i); if (j == std::string::npos) j = a.size(); f.push_back(a.substr(i, j - i)); i = j + 1; }
    if (f[0] == "cp" && f.size() == 3) e.compact_pointers.push_back({atoi(f[1].c_str()), tok_bytes(f[2])});
    else if (f[0] == "del" && f.size() == 3) e.deleted.push_back({atoi(f[1].c_str()), strtoull(f[2].c_str(), nullptr, 10)});
    else if (f[0] == "add" && f.size() == 6) {
      ref::EditFile ef;
      ef.level = atoi(f[1].c_str());
      ef.number = strtoull(f[2].c_str(), nullptr, 10);
      ef.size = strtoull(f[3].c_str(), nullptr, 10);
      ef.smallest = tok_bytes(f[4]);
      ef.largest = tok_bytes(f[5]);
      e.added.push_back(ef);
    }
  }
  return e;
}

static void build_lcdb_edit(ldb_edit_t *ed, const ref::Edit &e) {
  ldb_edit_init(ed);
  if (e.has_comparator) {
    // the setter takes a C string; names with NUL are not expressible through it
    ldb_edit_set_comparator_name(ed, e.comparator.c_str());
  }
  if (e.has_log) ldb_edit_set_log_number(ed, e.log);
  if (e.has_prev_log) ldb_edit_set_prev_log_number(ed, e.prev_log);
  if (e.has_next) ldb_edit_set_next_file(ed, e.next_file);
  if (e.has_last_seq) ldb_edit_set_last_sequence(ed, e.last_seq);
  for (auto &c : e.compact_pointers) {
    ldb_ikey_t k;
    ldb_buffer_init(&k);
    ldb_buffer_set(&k, (const uint8_t *)c.second.data(), c.second.size());
    ldb_edit_set_compact_pointer(ed, c.first, &k);
    ldb_buffer_clear(&k);
  }
  for (auto &d : e.deleted) ldb_edit_remove_file(ed, d.first, d.second);
  for (auto &f : e.added) {
    ldb_ikey_t s, l;
    ldb_buffer_init(&s);
    ldb_buffer_init(&l);
    ldb_buffer_set(&s, (const uint8_t *)f.smallest.data(), f.smallest.size());
    ldb_buffer_set(&l, (const uint8_t *)f.largest.data(), f.largest.size());
    ldb_edit_add_file(ed, f.level, f.number, f.size, &s, &l);
    ldb_buffer_clear(&s);
    ldb_buffer_clear(&l);
  }
}

static ref::Edit canonical(ref::Edit e) {
  // the deleted-file set is a set ordered by (level, number)
  std::sort(e.deleted.begin(), e.deleted.end());
  e.deleted.erase(std::unique(e.deleted.begin(), e.deleted.end()), e.deleted.end());
  return e;
}

static bool edits_equal(const ref::Edit &a, const ref::Edit &b, std::string *why) {
#define CHK(f) if (!(a.f == b.f)) { *why = #f; return false; }
  CHK(has_comparator) CHK(has_log) CHK(has_prev_log) CHK(has_next) CHK(has_last_seq)
  if (a.has_comparator) CHK(comparator)
  if (a.has_log) CHK(log)
  if (a.has_prev_log) CHK(prev_log)
  if (a.has_next) CHK(next_file)
  if (a.has_last_seq) CHK(last_seq)
  CHK(compact_pointers) CHK(deleted)
#undef CHK
  if (a.added.size() != b.added.size()) { *why = "added.size"; return false; }
  for (size_t i = 0; i < a.added.size(); i++) {
    const ref::EditFile &x = a.added[i], &y = b.added[i];
    if (x.level != y.level || x.number != y.number || x.size != y.size || x.smallest != y.smallest || x.largest != y.largest) { *why = sfmt("added[%zu]", i); return false; }
  }
  return true;
}

static void check_edit_case(const Op &op) {
  ref::Edit e = canonical(parse_edit_case(op));
  if (e.has_comparator && e.comparator.find('\0') != std::string::npos) return;
  ldb_edit_t ed;
  build_lcdb_edit(&ed, e);
  ldb_buffer_t out;
  ldb_buffer_init(&out);
  ldb_edit_export(&out, &ed);
  std::string bytes((const char *)out.data, out.size);
  ldb_buffer_clear(&out);
  ldb_edit_clear(&ed);
  // (1) bytes equal the reference encoding
  std::string want = ref::edit_encode(e);
  if (bytes != want) {
    size_t d = 0;
    while (d < bytes.size() && d < want.size() && bytes[d] == want[d]) d++;
    VF_FAIL("C17", "ldb_edit_export differs from the reference encoding at byte %zu (lcdb %zu bytes, reference %zu)", d, bytes.size(), want.size());
  }
  // (2) the reference decodes lcdb's bytes back to the same edit
  ref::Edit back;
  std::string err, why;
  if (!ref::edit_decode(bytes, &back, &err)) VF_FAIL("C17", "reference decoder rejects ldb_edit_export output: %s", err.c_str());
  if (!edits_equal(e, back, &why)) VF_FAIL("C17", "reference decode of ldb_edit_export output differs in %s", why.c_str());
  // (3) import(export(e)) == e, field by field (observed through a second export and the struct)
  ldb_edit_t in;
  ldb_edit_init(&in);
  ldb_slice_t src = sl(bytes);
  if (!ldb_edit_import(&in, &src)) { ldb_edit_clear(&in); VF_FAIL("C17", "ldb_edit_import rejects ldb_edit_export output"); }
  if ((in.has_log_number != 0) != e.has_log || (e.has_log && in.log_number != e.log) || (in.has_prev_log_number != 0) != e.has_prev_log ||
      (e.has_prev_log && in.prev_log_number != e.prev_log) || (in.has_next_file_number != 0) != e.has_next || (e.has_next && in.next_file_number != e.next_file) ||
      (in.has_last_sequence != 0) != e.has_last_seq || (e.has_last_seq && in.last_sequence != e.last_seq) || (in.has_comparator != 0) != e.has_comparator ||
      in.new_files.length != e.added.size() || in.compact_pointers.length != e.compact_pointers.size() || in.deleted_files.size != e.deleted.size()) {
    ldb_edit_clear(&in);
    VF_FAIL("C17", "ldb_edit_import(ldb_edit_export(e)) differs from e in a scalar field or a count");
  }
  for (size_t i = 0; i < e.added.size(); i++) {
    const meta_entry_t *me = (const meta_entry_t *)in.new_files.items[i];
    if (me->level != e.added[i].level || me->meta.number != e.added[i].number || me->meta.file_size != e.added[i].size ||
        str(me->meta.smallest) != e.added[i].smallest || str(me->meta.largest) != e.added[i].largest) {
      ldb_edit_clear(&in);
      VF_FAIL("C17", "ldb_edit_import(ldb_edit_export(e)): new file %zu differs", i);
    }
  }
  ldb_buffer_t out2;
  ldb_buffer_init(&out2);
  ldb_edit_export(&out2, &in);
  std::string bytes2((const char *)out2.data, out2.size);
  ldb_buffer_clear(&out2);
  ldb_edit_clear(&in);
  if (bytes2 != bytes) VF_FAIL("C17", "export(import(export(e))) != export(e)");
  // (4) a reference encoding with permuted field order is imported identically
  uint64_t pseed = (uint64_t)op.geti("perm", 0);
  if (pseed) {
    std::vector<std::string> fields;
    auto one = [&](std::function<void(ref::Edit &)> f) { ref::Edit x; f(x); fields.push_back(ref::edit_encode(x)); };
    if (e.has_comparator) one([&](ref::Edit &x) { x.has_comparator = true; x.comparator = e.comparator; });
    if (e.has_log) one([&](ref::Edit &x) { x.has_log = true; x.log = e.log; });
    if (e.has_prev_log) one([&](ref::Edit &x) { x.has_prev_log = true; x.prev_log = e.prev_log; });
    if (e.has_next) one([&](ref::Edit &x) { x.has_next = true; x.next_file = e.next_file; });
    if (e.has_last_seq) one([&](ref::Edit &x) { x.has_last_seq = true; x.last_seq = e.last_seq; });
    // repeated fields keep their relative order within their kind
    std::vector<std::string> cps, dels, adds;
    for (auto &c : e.compact_pointers) { ref::Edit x; x.compact_pointers.push_back(c); cps.push_back(ref::edit_encode(x)); }
    for (auto &d : e.deleted) { ref::Edit x; x.deleted.push_back(d); dels.push_back(ref::edit_encode(x)); }
    for (auto &f : e.added) { ref::Edit x; x.added.push_back(f); adds.push_back(ref::edit_encode(x)); }
    // interleave: shuffle scalar fields, then merge the three ordered lists randomly
    uint64_t st = pseed;
    for (size_t i = fields.size(); i > 1; i--) std::swap(fields[i - 1], fields[splitmix(st) % i]);
    std::string perm;
    size_t ic = 0, id = 0, ia = 0, is = 0;
    while (ic < cps.size() || id < dels.size() || ia < adds.size() || is < fields.size()) {
      switch (splitmix(st) % 4) {
        case 0: if (ic < cps.size()) perm += cps[ic++]; break;
        case 1: if (id < dels.size()) perm += dels[id++]; break;
        case 2: if (ia < adds.size()) perm += adds[ia++]; break;
        default: if (is < fields.size()) perm += fields[is++];
      }
    }
    ldb_edit_t in2;
    ldb_edit_init(&in2);
    ldb_slice_t s2 = sl(perm);
    if (!ldb_edit_import(&in2, &s2)) { ldb_edit_clear(&in2); VF_FAIL("C17", "ldb_edit_import rejects a standard encoding with permuted field order"); }
    ldb_buffer_t o3;
    ldb_buffer_init(&o3);
    ldb_edit_export(&o3, &in2);
    std::string b3((const char *)o3.data, o3.size);
    ldb_buffer_clear(&o3);
    ldb_edit_clear(&in2);
    if (b3 != want) VF_FAIL("C17", "importing a permuted standard encoding and exporting again does not give the canonical bytes");
  }
  g_rep->count("edit.roundtrips");
  bool multibyte = false;
  for (auto &f : e.added) if (f.number >= 128 || f.size >= 128) multibyte = true;
  if (!e.added.empty() && multibyte) g_rep->fp("C17.nt", fnv1a(bytes));
}

static void check_varint_range(uint64_t lo, uint64_t hi, bool is64) {
  uint8_t buf[16];
  for (uint64_t v = lo;; v++) {
    if (!is64) {
      uint32_t x = (uint32_t)v;
      uint8_t *end = ldb_varint32_write(buf, x);
      size_t n = (size_t)(end - buf);
      std::string r;
      ref::put_varint32(r, x);
      if (n != r.size() || memcmp(buf, r.data(), n) != 0) VF_FAIL("C17", "varint32 encoding of %u differs from the reference", x);
      if (n != (size_t)ldb_varint32_size(x)) VF_FAIL("C17", "ldb_varint32_size(%u) != encoded length", x);
      const uint8_t *p = buf;
      size_t left = n;
      uint32_t back = 0;
      if (!ldb_varint32_read(&back, &p, &left) || back != x || left != 0) VF_FAIL("C17", "varint32 decode(encode(%u)) = %u", x, back);
      // a truncated encoding must be rejected
      if (n > 1) { p = buf; left = n - 1; if (ldb_varint32_read(&back, &p, &left)) VF_FAIL("C17", "varint32 decoder accepts a truncated encoding of %u", x); }
    } else {
      uint8_t *end = ldb_varint64_write(buf, v);
      size_t n = (size_t)(end - buf);
      std::string r;
      ref::put_varint64(r, v);
      if (n != r.size() || memcmp(buf, r.data(), n) != 0) VF_FAIL("C17", "varint64 encoding of %llu differs from the reference", (unsigned long long)v);
      const uint8_t *p = buf;
      size_t left = n;
      uint64_t back = 0;
      if (!ldb_varint64_read(&back, &p, &left) || back != v || left != 0) VF_FAIL("C17", "varint64 decode(encode(%llu)) fails", (unsigned long long)v);
    }
    if (v == hi) break;
  }
}

static void check_varint_case(const Op &op) {
  uint64_t lo = strtoull(op.get("lo", "0").c_str(), nullptr, 10), hi = strtoull(op.get("hi", "0").c_str(), nullptr, 10);
  bool is64 = op.geti("w", 32) == 64;
  if (!is64 && hi > 0xffffffffULL) hi = 0xffffffffULL;
  if (hi < lo) hi = lo;
  check_varint_range(lo, hi, is64);
  g_rep->count("varint.values", (long long)(hi - lo + 1));
  g_rep->fp("C17.nt", fnv1a(op.str()));
}

// ================================================================ dispatch ===
static void run_line(const Op &op) {
  if (op.name == "log") check_log_case(op);
  else if (op.name == "crc") check_crc_case(op);
  else if (op.name == "table") check_table_case(op);
  else if (op.name == "snappy") check_snappy_case(op);
  else if (op.name == "edit") check_edit_case(op);
  else if (op.name == "varint") check_varint_case(op);
  else if (op.name == "sep") { long n = check_separators((int)op.geti("maxlen", 3)); g_rep->count("separator.pairs", n); g_rep->fp("C16.nt", fnv1a(op.str())); }
  else if (op.name == "crcinit") ldb_crc32c_init();
}

static bool run_case(const Case &c, Violation *v) {
  try {
    for (auto &op : c.ops) run_line(op);
  } catch (const Violation &x) {
    *v = x;
    return false;
  }
  return true;
}

static double now_s() {
  struct timespec ts;
  clock_gettime(CLOCK_MONOTONIC, &ts);
  return ts.tv_sec + ts.tv_nsec * 1e-9;
}

// in-process shrinking of list-valued fields (record lengths): the checks are pure functions
static std::string shrink_case(const std::string &text, const Violation &target) {
  Case c = parse_case(text);
  auto still = [&](const Case &x) { Violation v; return !run_case(x, &v) && v.prop == target.prop && v.sig == target.sig; };
  for (auto &op : c.ops) {
    for (const char *fld : {"pre", "recs"}) {
      if (!op.has(fld)) continue;
      std::vector<long> l = parse_list(op.get(fld));
      bool progress = true;
      while (progress && !l.empty()) {
        progress = false;
        for (size_t i = 0; i < l.size(); i++) {
          std::vector<long> t = l;
          t.erase(t.begin() + i);
          std::string s;
          for (size_t j = 0; j < t.size(); j++) s += (j ? "," : "") + std::to_string(t[j]);
          std::string keep = op.kv[fld];
          op.kv[fld] = s;
          if (still(c)) { l = t; progress = true; break; }
          op.kv[fld] = keep;
        }
      }
      for (size_t i = 0; i < l.size(); i++) {
        while (l[i] > 0) {
          std::vector<long> t = l;
          t[i] = l[i] / 2;
          std::string s;
          for (size_t j = 0; j < t.size(); j++) s += (j ? "," : "") + std::to_string(t[j]);
          std::string keep = op.kv[fld];
          op.kv[fld] = s;
          if (still(c)) l = t; else { op.kv[fld] = keep; break; }
        }
      }
    }
    if (op.name == "table" && op.has("n")) {
      long n = op.geti("n");
      while (n > 1) {
        std::string keep = op.kv["n"];
        op.kv["n"] = std::to_string(n / 2);
        if (still(c)) n /= 2; else { op.kv["n"] = keep; break; }
      }
    }
  }
  return c.str();
}

int main(int argc, char **argv) {
  std::string replay, kind = "C15", out = "";
  uint64_t seed = 1;
  long count = 100;
  int worker = 0;
  double budget = 1e9;
  int maxsize = 100;
  for (int i = 1; i < argc; i++) {
    std::string a = argv[i];
    auto next = [&]() -> std::string { return (i + 1 < argc) ? argv[++i] : ""; };
    if (a == "--replay") replay = next();
    else if (a == "--kind") kind = next();
    else if (a == "--seed") seed = strtoull(next().c_str(), nullptr, 10);
    else if (a == "--count") count = atol(next().c_str());
    else if (a == "--worker") worker = atoi(next().c_str());
    else if (a == "--out") out = next();
    else if (a == "--budget") budget = atof(next().c_str());
    else if (a == "--maxsize") maxsize = atoi(next().c_str());
    else if (a == "--known") { std::string k = next(); size_t p = 0; while (p <= k.size()) { size_t q = k.find(',', p); if (q == std::string::npos) q = k.size(); if (q > p) g_known.insert(k.substr(p, q - p)); p = q + 1; } }
  }
  setvbuf(stdout, nullptr, _IOLBF, 0);
  Report rep;
  g_rep = &rep;
  int rc = 0;
  if (!replay.empty()) {
    std::string text;
    if (!read_file(replay, text)) { fprintf(stderr, "cannot read %s\n", replay.c_str()); return 2; }
    Case c = parse_case(text);
    Violation v;
    if (!run_case(c, &v)) {
      printf("FAIL property=%s%s msg=%s\n", v.prop.c_str(), v.sig.empty() ? "" : (" sig=" + v.sig).c_str(), v.msg.c_str());
      rc = 3;
    } else printf("PASS\n");
    scratch_cleanup();
    return rc;
  }
  bool thorough = kind.find("-thorough") != std::string::npos;
  std::string base = kind.substr(0, kind.find('-'));
  std::string gkind = "codec" + base.substr(1) + (thorough ? "-thorough" : "");
  double t0 = now_s();
  // deterministic exhaustive sub-spaces, split across workers by index
  if (base == "C16" && worker == 0) {
    Case c = parse_case(sfmt("sep maxlen=%d\n", thorough ? 4 : 3));
    Violation v;
    if (!run_case(c, &v)) { write_file(out + sfmt("/w%d.failing.case", worker), c.str()); printf("FAIL property=%s case=%s msg=%s\n", v.prop.c_str(), (out + sfmt("/w%d.failing.case", worker)).c_str(), v.msg.c_str()); rc = 3; }
    rep.count("exhaustive.separator_alphabet5_maxlen", thorough ? 4 : 3);
  }
  if (base == "C17") {
    // varint32: thorough = all 2^32 values split over the workers; quick = +-2^10 around every 2^(7k) and 2^32-1
    std::vector<std::pair<uint64_t, uint64_t>> ranges;
    int nworkers = getenv("VERIF_JOBS") ? atoi(getenv("VERIF_JOBS")) : 16;
    if (thorough) {
      uint64_t per = (1ull << 32) / (uint64_t)nworkers;
      uint64_t lo = per * (uint64_t)worker, hi = (worker == nworkers - 1) ? 0xffffffffULL : lo + per - 1;
      ranges.push_back({lo, hi});
    } else if (worker == 0) {
      for (int k = 0; k <= 4; k++) { uint64_t c2 = 1ull << (7 * k); ranges.push_back({c2 > 1024 ? c2 - 1024 : 0, c2 + 1024}); }
      ranges.push_back({0xffffffffULL - 2048, 0xffffffffULL});
    }
    for (auto &r : ranges) {
      Case c = parse_case(sfmt("varint w=32 lo=%llu hi=%llu\n", (unsigned long long)r.first, (unsigned long long)r.second));
      Violation v;
      if (!run_case(c, &v)) { write_file(out + sfmt("/w%d.failing.case", worker), c.str()); printf("FAIL property=%s case=%s msg=%s\n", v.prop.c_str(), (out + sfmt("/w%d.failing.case", worker)).c_str(), v.msg.c_str()); rc = 3; break; }
    }
    if (thorough) rep.count("exhaustive.varint32_all_values_share");
    if (worker == 0 && rc == 0) {
      std::string t;
      for (int k = 1; k <= 9; k++) { uint64_t c2 = 1ull << (7 * k); t += sfmt("varint w=64 lo=%llu hi=%llu\n", (unsigned long long)(c2 - 300), (unsigned long long)(c2 + 300)); }
      t += sfmt("varint w=64 lo=%llu hi=%llu\n", 0xffffffffffffffffULL - 500, 0xffffffffffffffffULL);
      Case c = parse_case(t);
      Violation v;
      if (!run_case(c, &v)) { write_file(out + sfmt("/w%d.failing.case", worker), c.str()); printf("FAIL property=%s case=%s msg=%s\n", v.prop.c_str(), (out + sfmt("/w%d.failing.case", worker)).c_str(), v.msg.c_str()); rc = 3; }
    }
  }
  bool crc_inited = false;
  for (long i = 0; i < count && rc == 0; i++) {
    if (now_s() - t0 > budget) { rep.count("budget_exhausted"); break; }
    uint64_t cs = seed * 1000003ULL + (uint64_t)worker * 7919ULL + (uint64_t)i;
    int size = (int)(i % (maxsize + 1));
    // second half of a C15 run exercises the hardware CRC path (after ldb_crc32c_init)
    if (base == "C15" && !crc_inited && i >= count / 2) { ldb_crc32c_init(); crc_inited = true; rep.count("crc.hardware_path_enabled"); }
    std::string text = gen_case(gkind.c_str(), cs, size);
    if (!out.empty()) write_file(out + sfmt("/w%d.current.case", worker), text);
    Case c = parse_case(text);
    Violation v;
    bool ok = run_case(c, &v);
    rep.count("cases");
    if (!ok) {
      std::string small = shrink_case(text, v);
      if (crc_inited) small = "crcinit\n" + small;
      std::string fn = out.empty() ? std::string("failing.case") : out + sfmt("/w%d.failing.case", worker);
      write_file(fn, small);
      printf("FAIL property=%s case=%s%s msg=%s\n", v.prop.c_str(), fn.c_str(), v.sig.empty() ? "" : (" sig=" + v.sig).c_str(), v.msg.c_str());
      rc = 3;
      break;
    }
    if (i < 3) rep.sample(text.size() > 600 ? text.substr(0, 600) + "..." : text);
  }
  if (!out.empty()) {
    unlink((out + sfmt("/w%d.current.case", worker)).c_str());
    write_file(out + sfmt("/w%d.json", worker), rep.json());
  }
  scratch_cleanup();
  return rc;
}
