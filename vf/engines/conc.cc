// conc — concurrent programs on the deterministic scheduler (C08, C09, C04b/c).
//
// A case is a configuration, sequential setup operations, and per-thread
// operation lists (`thread <t> <op> ...`).  All threads (clients and lcdb's
// background thread) run on vfsched, so the interleaving at lock / condvar /
// thread-creation / system-call granularity is a pure function of the case
// (strategy + seed, or a forced choice list for replay / bounded-exhaustive
// enumeration).  Every operation gets invoke/return stamps on one logical
// clock.
//
// Oracles
//  * small histories: complete linearizability search (Wing-Gong with
//    memoisation) against a sequential map model;
//  * all histories: single-writer-per-key register checks (freshness bounds,
//    monotonic reads), snapshot / iterator views are cuts closed under each
//    writer's program order and real-time precedence, batch tokens equal,
//    final state = last acknowledged write per key;
//  * C09: scheduler-detected deadlock, per-call step bound, threads still
//    blocked after close.
#include <signal.h>
#include <stdio.h>
#include <stdlib.h>
#include <string.h>
#include <time.h>
#include <unistd.h>

#include <algorithm>
#include <functional>
#include <set>
#include <unordered_set>

#include "../lc.h"
#include "../layout.h"
#include "../util.h"
#include "../vfio.h"
#include "../vfsched.h"

namespace vf {
std::string gen_case(const char *kind, uint64_t seed, int size);
}
using namespace vf;

struct Violation { std::string prop, msg; };
#define VF_FAIL(prop, ...) throw Violation{prop, sfmt(__VA_ARGS__)}

static std::string g_out_dir, g_current_text;
static int g_worker = 0;
static bool g_in_replay = false;
static void fatal_hook(const char *why) {
  if (!g_out_dir.empty()) write_file(g_out_dir + sfmt("/w%d.failing.case", g_worker), g_current_text);
  printf("FAIL property=C09 msg=%s\n", why);
  fflush(stdout);
}
static double now_s() {
  struct timespec ts;
  clock_gettime(CLOCK_MONOTONIC, &ts);
  return ts.tv_sec + ts.tv_nsec * 1e-9;
}

// ------------------------------------------------------------ op records ----
enum OK { O_PUT, O_DEL, O_BATCH, O_GET, O_SNAPGET, O_SCAN, O_FLUSH, O_CRANGE, O_COMPACT, O_PROP, O_APPROX, O_SNAPHOLD, O_BACKUP, O_OTHER };

struct Upd { bool put; std::string key, value; };
struct OpRec {
  int thread = 0;
  OK kind = O_OTHER;
  std::string text;
  std::vector<Upd> ups;                 // writes
  std::vector<std::string> keys;        // reads
  int level = 0;
  bool sync = false;
  std::string path;                     // backup destination
  bool is_backup = false;
  // results
  int rc = 0;
  std::vector<std::pair<bool, std::string>> vals;          // per key: (found, value)
  std::vector<std::pair<std::string, std::string>> scan;   // scan result
  uint64_t inv = 0, ret = 0;
  uint64_t view_complete = 0;           // snaphold: stamp taken when the first round of reads was done
  std::string reread_msg;               // snaphold: a re-read through the same snapshot differed
  bool done = false;
};

static uint64_t g_stamp = 0;

struct Shared {
  std::string dir;
  ldb_t *db = nullptr;
  std::vector<OpRec> *ops = nullptr;
};

struct ThreadArg { Shared *sh; std::vector<int> idx; };

static void exec_op(Shared *sh, OpRec &o) {
  ldb_t *db = sh->db;
  sched_call_begin();
  o.inv = ++g_stamp;
  switch (o.kind) {
    case O_PUT: case O_DEL: case O_BATCH: {
      ldb_batch_t *b = ldb_batch_create();
      for (auto &u : o.ups) {
        ldb_slice_t k = slice_of(u.key), v = slice_of(u.value);
        if (u.put) ldb_batch_put(b, &k, &v); else ldb_batch_del(b, &k);
      }
      ldb_writeopt_t wo = *ldb_writeopt_default;
      wo.sync = o.sync;
      if (o.kind == O_PUT && o.ups.size() == 1) { ldb_slice_t k = slice_of(o.ups[0].key), v = slice_of(o.ups[0].value); o.rc = ldb_put(db, &k, &v, &wo); }
      else if (o.kind == O_DEL && o.ups.size() == 1) { ldb_slice_t k = slice_of(o.ups[0].key); o.rc = ldb_del(db, &k, &wo); }
      else o.rc = ldb_write(db, b, &wo);
      ldb_batch_destroy(b);
      break;
    }
    case O_GET: {
      ldb_slice_t k = slice_of(o.keys[0]), v;
      o.rc = ldb_get(db, &k, &v, nullptr);
      if (o.rc == LDB_OK) { o.vals.push_back({true, str_of(v)}); ldb_free(v.data); } else o.vals.push_back({false, ""});
      break;
    }
    case O_SNAPGET: {
      const ldb_snapshot_t *s = ldb_snapshot(db);
      ldb_readopt_t ro = *ldb_readopt_default;
      ro.snapshot = s;
      for (auto &key : o.keys) {
        ldb_slice_t k = slice_of(key), v;
        int r = ldb_get(db, &k, &v, &ro);
        if (r == LDB_OK) { o.vals.push_back({true, str_of(v)}); ldb_free(v.data); }
        else { o.vals.push_back({false, ""}); if (r != LDB_NOTFOUND) o.rc = r; }
      }
      ldb_release(db, s);
      break;
    }
    case O_SNAPHOLD: {
      // a snapshot held across a flush and a merging compaction (while other threads hold theirs and keep writing), read
      // before and after: the view is judged like snapget's, and the second round of reads must repeat the first
      const ldb_snapshot_t *s = ldb_snapshot(db);
      ldb_readopt_t ro = *ldb_readopt_default;
      ro.snapshot = s;
      for (auto &key : o.keys) {
        ldb_slice_t k = slice_of(key), v;
        int r = ldb_get(db, &k, &v, &ro);
        if (r == LDB_OK) { o.vals.push_back({true, str_of(v)}); ldb_free(v.data); }
        else { o.vals.push_back({false, ""}); if (r != LDB_NOTFOUND) o.rc = r; }
      }
      o.view_complete = ++g_stamp;
      ldb_test_compact_memtable(db);
      ldb_test_compact_range(db, 0, nullptr, nullptr);
      if (o.level) ldb_test_compact_range(db, 1, nullptr, nullptr);
      for (size_t i = 0; i < o.keys.size() && o.reread_msg.empty(); i++) {
        ldb_slice_t k = slice_of(o.keys[i]), v;
        int r = ldb_get(db, &k, &v, &ro);
        bool found = (r == LDB_OK);
        std::string val = found ? str_of(v) : std::string();
        if (found) ldb_free(v.data);
        if (r != LDB_OK && r != LDB_NOTFOUND) o.reread_msg = sfmt("re-read of %s through the held snapshot returns status %d", lit_token(o.keys[i]).c_str(), r);
        else if (found != o.vals[i].first || val != o.vals[i].second)
          o.reread_msg = sfmt("re-read of %s through the same snapshot changed after a compaction: was %s, now %s", lit_token(o.keys[i]).c_str(),
                              o.vals[i].first ? lit_token(o.vals[i].second).substr(0, 40).c_str() : "<not found>", found ? lit_token(val).substr(0, 40).c_str() : "<not found>");
      }
      ldb_release(db, s);
      o.kind = O_SNAPGET;
      break;
    }
    case O_SCAN: {
      ldb_iter_t *it = ldb_iterator(db, nullptr);
      for (ldb_iter_first(it); ldb_iter_valid(it); ldb_iter_next(it)) o.scan.push_back({str_of(ldb_iter_key(it)), str_of(ldb_iter_value(it))});
      o.rc = ldb_iter_status(it);
      ldb_iter_destroy(it);
      break;
    }
    case O_FLUSH: o.rc = ldb_test_compact_memtable(db); break;
    case O_CRANGE: ldb_test_compact_range(db, o.level, nullptr, nullptr); break;
    case O_COMPACT: ldb_compact(db, nullptr, nullptr); break;
    case O_PROP: { char *v = nullptr; if (ldb_property(db, "leveldb.sstables", &v) && v) ldb_free(v); if (ldb_property(db, "leveldb.stats", &v) && v) ldb_free(v); break; }
    case O_BACKUP: {
      o.path = sh->dir + sfmt(".bak%d", (int)(&o - &(*sh->ops)[0]));
      rm_rf(o.path);
      o.rc = ldb_backup(db, o.path.c_str());
      break;
    }
    case O_APPROX: { ldb_range_t r; std::string a = "a", z = "z"; r.start = slice_of(a); r.limit = slice_of(z); ldb_uint64_t sz; ldb_approximate_sizes(db, &r, 1, &sz); break; }
    default: break;
  }
  o.ret = o.view_complete ? o.view_complete : ++g_stamp;
  o.done = true;
  sched_call_end();
}

static void thread_main(void *p) {
  ThreadArg *a = (ThreadArg *)p;
  for (int i : a->idx) exec_op(a->sh, (*a->sh->ops)[i]);
}

// ------------------------------------------------------------- parsing ------
static bool parse_thread_op(const Op &op, OpRec *o) {
  // op.args[0] = thread id, op.args[1] = operation name, rest = operands
  if (op.args.size() < 2) return false;
  o->thread = atoi(op.args[0].c_str());
  const std::string &n = op.args[1];
  o->text = op.str();
  o->sync = op.geti("sync", 0) != 0;
  auto key = [&](size_t i, std::string &out) { return i < op.args.size() && expand_bytes(op.args[i], out); };
  if (n == "put") { Upd u; u.put = true; if (!key(2, u.key) || !key(3, u.value)) return false; o->kind = O_PUT; o->ups.push_back(u); }
  else if (n == "del") { Upd u; u.put = false; if (!key(2, u.key)) return false; o->kind = O_DEL; o->ups.push_back(u); }
  else if (n == "batch") {
    o->kind = O_BATCH;
    for (size_t i = 2; i < op.args.size(); i++) {
      const std::string &a = op.args[i];
      Upd u;
      if (a.compare(0, 2, "p:") == 0) { size_t c = a.find(':', 2); if (c == std::string::npos) continue; u.put = true; if (!expand_bytes(a.substr(2, c - 2), u.key) || !expand_bytes(a.substr(c + 1), u.value)) continue; o->ups.push_back(u); }
      else if (a.compare(0, 2, "d:") == 0) { u.put = false; if (!expand_bytes(a.substr(2), u.key)) continue; o->ups.push_back(u); }
    }
    if (o->ups.empty()) return false;
  }
  else if (n == "get") { std::string k; if (!key(2, k)) return false; o->kind = O_GET; o->keys.push_back(k); }
  else if (n == "snaphold") { o->kind = O_SNAPHOLD; for (size_t i = 2; i < op.args.size(); i++) { std::string k; if (expand_bytes(op.args[i], k)) o->keys.push_back(k); } if (o->keys.empty()) return false; o->level = (int)(o->keys.size() % 2); }
  else if (n == "snapget") { o->kind = O_SNAPGET; for (size_t i = 2; i < op.args.size(); i++) { std::string k; if (expand_bytes(op.args[i], k)) o->keys.push_back(k); } if (o->keys.empty()) return false; }
  else if (n == "scan") o->kind = O_SCAN;
  else if (n == "flush") o->kind = O_FLUSH;
  else if (n == "crange") { o->kind = O_CRANGE; o->level = op.args.size() > 2 ? atoi(op.args[2].c_str()) : 0; if (o->level < 0 || o->level > 5) return false; }
  else if (n == "compact") o->kind = O_COMPACT;
  else if (n == "prop") o->kind = O_PROP;
  else if (n == "approx") o->kind = O_APPROX;
  else if (n == "backup") { o->kind = O_BACKUP; o->is_backup = true; }
  else return false;
  return true;
}

// ------------------------------------------------- linearizability search ---
typedef std::map<std::string, std::string> State;

static bool op_matches(const OpRec &o, State &st) {
  // applies o to st if its recorded result is what the sequential model returns
  switch (o.kind) {
    case O_PUT: case O_DEL: case O_BATCH:
      if (o.rc != LDB_OK) return true;  // no faults here: cannot happen, treated as no-op
      for (auto &u : o.ups) { if (u.put) st[u.key] = u.value; else st.erase(u.key); }
      return true;
    case O_GET: case O_SNAPGET:
      for (size_t i = 0; i < o.keys.size(); i++) {
        auto it = st.find(o.keys[i]);
        if (it == st.end()) { if (o.vals[i].first) return false; }
        else if (!o.vals[i].first || o.vals[i].second != it->second) return false;
      }
      return true;
    case O_SCAN: {
      if (o.scan.size() != st.size()) return false;
      size_t i = 0;
      for (auto &p : st) { if (o.scan[i].first != p.first || o.scan[i].second != p.second) return false; i++; }
      return true;
    }
    default: return true;
  }
}

static uint64_t state_hash(const State &st) {
  uint64_t h = 1469598103934665603ULL;
  for (auto &p : st) { h = fnv1a(p.first, h); h = fnv1a(p.second, h * 31 + 7); }
  return h;
}

static bool linearizable(const std::vector<const OpRec *> &ops, const State &init, long *explored) {
  size_t n = ops.size();
  if (n > 24) return true;
  std::unordered_set<uint64_t> seen;
  std::function<bool(uint32_t, State &)> go = [&](uint32_t done, State &st) -> bool {
    if (done == (1u << n) - 1) return true;
    uint64_t key = (uint64_t)done * 0x9E3779B97F4A7C15ULL ^ state_hash(st);
    if (!seen.insert(key).second) return false;
    (*explored)++;
    // minimal return stamp among pending ops: an op can go next only if it was invoked before that
    uint64_t minret = ~0ULL;
    for (size_t i = 0; i < n; i++) if (!(done & (1u << i))) minret = std::min(minret, ops[i]->ret);
    for (size_t i = 0; i < n; i++) {
      if (done & (1u << i)) continue;
      if (ops[i]->inv > minret) continue;
      State next = st;
      if (!op_matches(*ops[i], next)) continue;
      if (go(done | (1u << i), next)) return true;
    }
    return false;
  };
  State s = init;
  return go(0, s);
}

// --------------------------------------------------------------- runner -----
struct WInfo { int thread; int index; uint64_t inv, ret; bool is_del; std::string value; };  // one write to a key

class ConcRunner {
 public:
  explicit ConcRunner(Report *r) : rep(r) {}
  Report *rep;
  DbConfig cfg;
  SchedConfig scfg;
  std::string dir;
  std::vector<OpRec> ops;        // concurrent ops
  State setup_state;
  uint64_t case_hash = 0;
  bool overlapping_rw = false;
  bool close_race = false;
  int backups_checked = 0;

  void sched_cfg(const Op &op) {
    if (op.has("sched")) {
      std::string s = op.get("sched");
      if (s == "starved") scfg.strategy = ST_STARVED;
      else if (s == "eager") scfg.strategy = ST_EAGER;
      else if (s == "pct") scfg.strategy = ST_PCT;
      else if (s == "rr") scfg.strategy = ST_RR;
      else if (s == "replay") scfg.strategy = ST_REPLAY;
      else scfg.strategy = ST_RANDOM;
    }
    if (op.has("sseed")) scfg.seed = (uint64_t)op.geti("sseed", 1);
    if (op.has("spur")) scfg.spurious = op.geti("spur", 0) != 0;
    if (op.has("rsig")) scfg.random_signal = op.geti("rsig", 0) != 0;
    if (op.has("pctd")) scfg.pct_depth = (int)op.geti("pctd", 2);
    if (op.has("pctlen")) scfg.pct_len = (uint64_t)op.geti("pctlen", 3000);
    if (op.has("steplimit")) scfg.step_limit = (uint64_t)op.geti("steplimit", 4000000);
  }

  void run(const Case &c, const std::vector<uint32_t> *forced = nullptr) {
    ops.clear();
    setup_state.clear();
    std::vector<Op> setup;
    cfg = DbConfig();
    scfg = SchedConfig();
    scfg.strategy = ST_RANDOM;
    scfg.step_limit = 4000000;
    for (auto &op : c.ops) {
      if (op.name == "config") { cfg.apply(op); sched_cfg(op); }
      else if (op.name == "choices") { scfg.forced.clear(); for (auto &a : op.args) scfg.forced.push_back((uint32_t)atoi(a.c_str())); scfg.strategy = ST_REPLAY; }
      else if (op.name == "thread") { OpRec o; if (parse_thread_op(op, &o)) ops.push_back(o); }
      else setup.push_back(op);
    }
    if (forced) { scfg.forced = *forced; scfg.strategy = ST_REPLAY; }
    static int seq = 0;
    dir = scratch_root() + sfmt("/conc%d", seq++);
    rm_rf(dir);
    io_reset();
    io_set_root(dir);
    g_stamp = 0;
    sched_begin(scfg);
    DbOptions opts;
    opts.build(cfg);
    Shared sh;
    sh.ops = &ops;
    sh.dir = dir;
    int rc = ldb_open(dir.c_str(), &opts.opt, &sh.db);
    if (rc != LDB_OK) VF_FAIL("C08", "ldb_open failed rc=%d", rc);
    // ---- sequential setup (main thread)
    for (auto &op : setup) {
      const std::string &n = op.name;
      struct CallScope { CallScope() { sched_call_begin(); } ~CallScope() { sched_call_end(); } } call_scope;   // step bounds apply to setup calls too
      if (n == "put") { std::string k, v; if (op.args.size() >= 2 && expand_bytes(op.args[0], k) && expand_bytes(op.args[1], v)) { ldb_slice_t ks = slice_of(k), vs = slice_of(v); if (ldb_put(sh.db, &ks, &vs, nullptr) != LDB_OK) VF_FAIL("C08", "setup put failed"); setup_state[k] = v; } }
      else if (n == "fill") {
        long lo = op.args.size() > 0 ? atol(op.args[0].c_str()) : 0, hi = op.args.size() > 1 ? atol(op.args[1].c_str()) : lo + 10, nb = op.args.size() > 2 ? atol(op.args[2].c_str()) : 1000;
        for (long k = lo; k < hi && k < lo + 3000; k++) { std::string key = sfmt("f%05ld", k), v; expand_bytes(sfmt("r%ld.%ld", k, nb), v); ldb_slice_t ks = slice_of(key), vs = slice_of(v); if (ldb_put(sh.db, &ks, &vs, nullptr) != LDB_OK) VF_FAIL("C08", "setup fill failed"); setup_state[key] = v; }
      }
      else if (n == "flush") ldb_test_compact_memtable(sh.db);
      else if (n == "crange") ldb_test_compact_range(sh.db, op.args.size() ? atoi(op.args[0].c_str()) : 0, nullptr, nullptr);
      else if (n == "quiesce") sched_quiesce();
      else if (n == "tables") {
        long cnt = op.args.size() ? atol(op.args[0].c_str()) : 80;
        for (long i = 0; i < cnt && i < 400; i++) { std::string key = sfmt("m%04ld", i), v = sfmt("tbl%04ld", i); ldb_slice_t ks = slice_of(key), vs = slice_of(v); if (ldb_put(sh.db, &ks, &vs, nullptr) != LDB_OK) VF_FAIL("C08", "setup put failed"); setup_state[key] = v; ldb_test_compact_memtable(sh.db); }
      }
      else if (n == "reopen") {
        // close and open again, possibly with other options (e.g. a smaller write buffer, so that recovery of one large log
        // leaves many level-0 tables behind and the first writers meet the level-0 stop condition at once)
        ldb_close(sh.db);
        sh.db = nullptr;
        sched_quiesce();
        cfg.apply(op);
        opts.clear();
        opts.build(cfg);
        rc = ldb_open(dir.c_str(), &opts.opt, &sh.db);
        if (rc != LDB_OK) VF_FAIL("C08", "setup reopen failed rc=%d", rc);
        rep->count("class.setup_reopen");
      }
    }
    // ---- concurrent phase
    std::map<int, ThreadArg> targs;
    for (size_t i = 0; i < ops.size(); i++) { targs[ops[i].thread].sh = &sh; targs[ops[i].thread].idx.push_back((int)i); }
    std::vector<int> tids;
    for (auto &p : targs) tids.push_back(sched_spawn(thread_main, &p.second));
    for (int t : tids) sched_join(t);
    for (auto &o : ops) if (!o.done) VF_FAIL("C09", "operation `%s` never returned", o.text.c_str());
    for (auto &o : ops) if (!o.reread_msg.empty()) VF_FAIL("C08", "`%s`: %s", o.text.c_str(), o.reread_msg.c_str());
    for (auto &o : ops) if (o.view_complete) rep->count("class.snapshot_held_across_compaction");
    // a backup taken concurrently with writers is an independently openable database whose contents are one point in
    // the batch order: judged below exactly like a scan whose interval is the ldb_backup call
    for (auto &o : ops) {
      if (o.kind != O_BACKUP) continue;
      if (o.rc != LDB_OK) VF_FAIL("C20", "`%s` returned rc=%d without any fault", o.text.c_str(), o.rc);
      DbOptions o2;
      o2.build(cfg);
      o2.opt.create_if_missing = 0;
      ldb_t *d2 = nullptr;
      int rc2 = ldb_open(o.path.c_str(), &o2.opt, &d2);
      if (rc2 != LDB_OK) VF_FAIL("C20", "backup taken by `%s` cannot be opened (rc=%d)", o.text.c_str(), rc2);
      ldb_iter_t *it = ldb_iterator(d2, nullptr);
      for (ldb_iter_first(it); ldb_iter_valid(it); ldb_iter_next(it)) o.scan.push_back({str_of(ldb_iter_key(it)), str_of(ldb_iter_value(it))});
      int st = ldb_iter_status(it);
      ldb_iter_destroy(it);
      ldb_close(d2);
      rm_rf(o.path);
      if (st != LDB_OK) VF_FAIL("C20", "scan of the backup taken by `%s` ends with status %d", o.text.c_str(), st);
      o.kind = O_SCAN;
      backups_checked++;
    }
    // ---- in every second program (decided by the program text): wait until background work has settled and check the
    // level structure the database reports (C14: sorted, non-overlapping files above level 0, contents within bounds,
    // newer above older).  The other half keeps closing while background work may still be scheduled.
    uint64_t prog_hash = 1469598103934665603ULL;
    for (auto &op : c.ops) if (op.name != "choices") prog_hash = fnv1a(op.str(), prog_hash);
    if ((prog_hash & 1) == 0) {
      sched_quiesce();
      char *lt = nullptr;
      if (ldb_property(sh.db, "leveldb.sstables", &lt) && lt) {
        Layout L;
        std::string err, why;
        std::string text = lt;
        ldb_free(lt);
        if (!parse_layout(text, L, &err)) VF_FAIL("C14", "cannot parse leveldb.sstables: %s", err.c_str());
        if (!layout_deep_check(L, dir, cmp_kind_of(cfg.cmp), &why)) VF_FAIL(why.substr(0, 3) == "C13" ? "C13" : "C14", "after the concurrent phase: %s", why.c_str());
        rep->count("layout_checks_after_concurrent_phase");
      }
    }
    // ---- final state, then close while background work may still be scheduled
    std::vector<std::pair<std::string, std::string>> final_scan;
    {
      ldb_iter_t *it = ldb_iterator(sh.db, nullptr);
      for (ldb_iter_first(it); ldb_iter_valid(it); ldb_iter_next(it)) final_scan.push_back({str_of(ldb_iter_key(it)), str_of(ldb_iter_value(it))});
      int st = ldb_iter_status(it);
      ldb_iter_destroy(it);
      if (st != LDB_OK) VF_FAIL("C08", "final scan status %d", st);
    }
    sched_call_begin();
    ldb_close(sh.db);
    sched_call_end();
    int blocked = sched_end();
    opts.clear();
    if (blocked) VF_FAIL("C09", "%d thread(s) still blocked after ldb_close returned", blocked);
    check_history(final_scan);
  }

  // ------------------------------------------------------------ oracles ----
  void check_history(const std::vector<std::pair<std::string, std::string>> &final_scan) {
    for (auto &o : ops) {
      if ((o.kind == O_PUT || o.kind == O_DEL || o.kind == O_BATCH || o.kind == O_FLUSH) && o.rc != LDB_OK) VF_FAIL("C08", "`%s` returned rc=%d without any fault", o.text.c_str(), o.rc);
      if ((o.kind == O_GET) && o.rc != LDB_OK && o.rc != LDB_NOTFOUND) VF_FAIL("C08", "`%s` returned rc=%d", o.text.c_str(), o.rc);
      if ((o.kind == O_SNAPGET || o.kind == O_SCAN) && o.rc != LDB_OK) VF_FAIL("C08", "`%s` status %d", o.text.c_str(), o.rc);
    }
    // per-key write lists
    std::map<std::string, std::vector<WInfo>> writes;
    for (auto &o : ops) {
      if (o.kind != O_PUT && o.kind != O_DEL && o.kind != O_BATCH) continue;
      std::map<std::string, const Upd *> last;
      for (auto &u : o.ups) last[u.key] = &u;
      for (auto &p : last) writes[p.first].push_back(WInfo{o.thread, (int)(&o - &ops[0]), o.inv, o.ret, !p.second->put, p.second->value});
    }
    // are keys single-writer with distinct values? (then the register checks apply)
    bool registers = true;
    for (auto &p : writes) {
      std::set<int> ths; std::set<std::string> vals;
      for (auto &w : p.second) { ths.insert(w.thread); if (!w.is_del) { if (!vals.insert(w.value).second) registers = false; } }
      if (ths.size() > 1) registers = false;
    }
    // overlap classification (non-trivial rule)
    for (auto &o : ops) {
      if (o.kind != O_GET && o.kind != O_SNAPGET && o.kind != O_SCAN) continue;
      for (auto &p : writes) {
        bool reads_it = o.kind == O_SCAN || std::find(o.keys.begin(), o.keys.end(), p.first) != o.keys.end();
        if (!reads_it) continue;
        for (auto &w : p.second) if (w.inv < o.ret && o.inv < w.ret) overlapping_rw = true;
      }
    }
    for (auto &p : writes) for (size_t i = 0; i < p.second.size(); i++) for (size_t j = i + 1; j < p.second.size(); j++)
      if (p.second[i].thread != p.second[j].thread && p.second[i].inv < p.second[j].ret && p.second[j].inv < p.second[i].ret) overlapping_rw = true;

    // (1) complete search for small histories
    std::vector<const OpRec *> lin;
    for (auto &o : ops) if ((o.kind == O_PUT || o.kind == O_DEL || o.kind == O_BATCH || o.kind == O_GET || o.kind == O_SNAPGET || o.kind == O_SCAN) && !o.is_backup) lin.push_back(&o);
    if (lin.size() <= 14) {
      long explored = 0;
      // scans see the whole database: the model must contain the setup keys too
      if (!linearizable(lin, setup_state, &explored)) {
        std::string h;
        for (auto *o : lin) h += sfmt("\n    [%llu,%llu] T%d %s -> %s", (unsigned long long)o->inv, (unsigned long long)o->ret, o->thread, o->text.substr(0, 80).c_str(), result_str(*o).c_str());
        VF_FAIL("C08", "history of %zu operations is not linearizable:%s", lin.size(), h.c_str());
      }
      rep->count("linearizability_searches");
      rep->count("linearizability_states", explored);
    }
    // (2) register checks
    if (registers) {
      auto check_view = [&](const OpRec &o, const std::string &key, bool found, const std::string &val) {
        try { return check_view_inner(o, key, found, val, writes); } catch (Violation &v) { if (o.is_backup) { v.prop = "C20"; v.msg = "backup contents: " + v.msg; } throw; }
      };
      // per-thread program index of every write (for cut closure)
      std::map<int, std::vector<std::pair<std::string, int>>> prog;  // thread -> [(key, index in that key's write list)] in program order
      for (auto &o : ops) {
        if (o.kind != O_PUT && o.kind != O_DEL && o.kind != O_BATCH) continue;
        std::map<std::string, bool> seen;
        for (auto &u : o.ups) seen[u.key] = true;
        for (auto &p : seen) {
          auto &ws = writes[p.first];
          for (size_t i = 0; i < ws.size(); i++) if (ws[i].index == (int)(&o - &ops[0])) prog[o.thread].push_back({p.first, (int)i});
        }
      }
      std::map<std::string, std::map<int, int>> last_seen;  // key -> (reader thread -> last observed index) for monotonic reads
      std::vector<const OpRec *> reads;
      for (auto &o : ops) if (o.kind == O_GET || o.kind == O_SNAPGET || o.kind == O_SCAN) reads.push_back(&o);
      std::sort(reads.begin(), reads.end(), [](const OpRec *a, const OpRec *b) { return a->inv < b->inv; });
      struct Obs { uint64_t inv, ret; int idx; };
      std::map<std::string, std::vector<Obs>> per_key_obs;
      for (const OpRec *op : reads) {
        const OpRec &o = *op;
        std::map<std::string, int> view;  // key -> observed write index
        if (o.kind == O_SCAN) {
          std::map<std::string, std::string> m(o.scan.begin(), o.scan.end());
          if (m.size() != o.scan.size()) VF_FAIL("C07", "`%s`: scan yields a key twice", o.text.c_str());
          for (size_t i = 1; i < o.scan.size(); i++) if (cmp_apply(cmp_kind_of(cfg.cmp), o.scan[i - 1].first.data(), o.scan[i - 1].first.size(), o.scan[i].first.data(), o.scan[i].first.size()) >= 0) VF_FAIL("C07", "`%s`: scan out of order", o.text.c_str());
          std::set<std::string> keys;
          for (auto &p : writes) keys.insert(p.first);
          for (auto &p : setup_state) keys.insert(p.first);
          for (auto &p : m) keys.insert(p.first);
          for (auto &k : keys) { auto it = m.find(k); view[k] = check_view(o, k, it != m.end(), it != m.end() ? it->second : ""); }
        } else {
          for (size_t i = 0; i < o.keys.size(); i++) view[o.keys[i]] = check_view(o, o.keys[i], o.vals[i].first, o.vals[i].second);
        }
        for (auto it2 = view.begin(); it2 != view.end();) { if (it2->second == -2) it2 = view.erase(it2); else ++it2; }
        // A backup copies the log while a writer may be between its log append and the publication of its sequence, so it
        // can hold a batch that no reader of the source can see yet.  C20 asks for a whole-batch prefix containing everything
        // acknowledged before the call and nothing begun after it returned (checked above and below), not for real-time
        // order between the backup's contents and later reads of the source: backups stay out of the monotonicity relation.
        if (!o.is_backup) for (auto &v : view) per_key_obs[v.first].push_back(Obs{o.inv, o.ret, v.second});
        // cut closure for multi-key views: if the view reflects thread A's write number j (program order), it reflects every earlier write of A to keys in the view
        if (view.size() >= 2) {
          for (auto &pr : prog) {
            int maxpos = -1;
            for (size_t pos = 0; pos < pr.second.size(); pos++) {
              auto vi = view.find(pr.second[pos].first);
              if (vi != view.end() && vi->second >= pr.second[pos].second) maxpos = std::max(maxpos, (int)pos);
            }
            // "reflects write at pos" = observed index >= that write's index (single writer per key => indices are program order)
            // find the largest pos whose write is exactly observed or superseded only by later writes of the same thread
            int reflected = -1;
            for (size_t pos = 0; pos < pr.second.size(); pos++) {
              auto vi = view.find(pr.second[pos].first);
              if (vi != view.end() && vi->second == pr.second[pos].second) reflected = std::max(reflected, (int)pos);
            }
            for (int pos = 0; pos < reflected; pos++) {
              auto vi = view.find(pr.second[pos].first);
              if (vi == view.end()) continue;
              if (vi->second < pr.second[pos].second)
                VF_FAIL(o.is_backup ? "C20" : "C08", "`%s`: the view reflects thread %d's write #%d (to %s) but not its earlier write to %s: not a single point in time%s", o.text.c_str(), pr.first,
                        reflected, lit_token(pr.second[reflected].first).c_str(), lit_token(pr.second[pos].first).c_str(), batch_note(pr.second, pos, reflected).c_str());
            }
            (void)maxpos;
          }
          rep->count("multi_key_views");
        }
      }
      // monotonic reads in real time: a read that begins after another ended never observes an older write
      for (auto &p : per_key_obs) {
        auto &v = p.second;
        for (size_t i = 0; i < v.size(); i++) for (size_t j = 0; j < v.size(); j++)
          if (v[i].ret < v[j].inv && v[j].idx < v[i].idx && v[i].idx >= 0)
            VF_FAIL("C08", "reads of key %s go backwards in real time: write #%d observed by a read that ended at %llu, write #%d by a read that began at %llu", lit_token(p.first).c_str(), v[i].idx,
                    (unsigned long long)v[i].ret, v[j].idx, (unsigned long long)v[j].inv);
      }
      // (3) final state = last acknowledged write per key
      std::map<std::string, std::string> fin(final_scan.begin(), final_scan.end());
      for (auto &p : writes) {
        const WInfo &lastw = p.second.back();
        auto it = fin.find(p.first);
        if (lastw.is_del) { if (it != fin.end()) VF_FAIL("C08", "final state: key %s present although its writer's last write was a delete", lit_token(p.first).c_str()); }
        else if (it == fin.end() || it->second != lastw.value) VF_FAIL("C08", "final state: key %s does not hold its writer's last acknowledged write", lit_token(p.first).c_str());
      }
      for (auto &p : setup_state) if (!writes.count(p.first)) { auto it = fin.find(p.first); if (it == fin.end() || it->second != p.second) VF_FAIL("C08", "final state: untouched key %s changed", lit_token(p.first).c_str()); }
      for (auto &p : fin) if (!writes.count(p.first) && !setup_state.count(p.first)) VF_FAIL("C08", "final state: key %s was never written", lit_token(p.first).c_str());
      rep->count("register_checked_histories");
    }
  }

  int check_view_inner(const OpRec &o, const std::string &key, bool found, const std::string &val, std::map<std::string, std::vector<WInfo>> &writes) {
        auto wit = writes.find(key);
        if (wit == writes.end()) {
          auto s = setup_state.find(key);
          if (s == setup_state.end()) { if (found) VF_FAIL("C08", "`%s`: key %s has a value but was never written", o.text.c_str(), lit_token(key).c_str()); }
          else if (!found || val != s->second) VF_FAIL("C08", "`%s`: key %s differs from its setup value although nobody wrote it", o.text.c_str(), lit_token(key).c_str());
          return -1;
        }
        auto &ws = wit->second;
        // index of the observed write
        int obs = -1;  // -1 = initial state
        if (found) {
          for (size_t i = 0; i < ws.size(); i++) if (!ws[i].is_del && ws[i].value == val) obs = (int)i;
          if (obs < 0) {
            auto s = setup_state.find(key);
            if (s == setup_state.end() || s->second != val) VF_FAIL("C08", "`%s`: key %s holds a value nobody wrote", o.text.c_str(), lit_token(key).c_str());
          }
        } else {
          // not found: initial absence or one of the deletes.  Candidates are those not excluded by the
          // real-time bounds; when more than one remains the observed write is ambiguous (-2) and the
          // view-based checks below skip this key.
          bool initial_absent = !setup_state.count(key);
          int must = -1;
          for (size_t i = 0; i < ws.size(); i++) if (ws[i].ret < o.inv) must = (int)i;
          std::vector<int> candidates;
          if (initial_absent && must < 0) candidates.push_back(-1);
          for (size_t i = 0; i < ws.size(); i++) if (ws[i].is_del && ws[i].inv < o.ret && (int)i >= must) candidates.push_back((int)i);
          if (candidates.empty())
            VF_FAIL("C08", "`%s`: key %s not found, but no delete (or initial absence) is compatible with real time: write #%d completed before the read began", o.text.c_str(), lit_token(key).c_str(), must);
          return candidates.size() == 1 ? candidates[0] : -2;
        }
        // freshness: not older than the last write completed before the read began
        int must = -1;
        for (size_t i = 0; i < ws.size(); i++) if (ws[i].ret < o.inv) must = (int)i;
        if (obs < must) VF_FAIL("C08", "`%s`: key %s shows write #%d but write #%d completed before the read began (stale read)", o.text.c_str(), lit_token(key).c_str(), obs, must);
        // not newer than the last write begun before the read returned
        if (obs >= 0 && ws[obs].inv > o.ret) VF_FAIL("C08", "`%s`: key %s shows write #%d which was invoked only after the read returned", o.text.c_str(), lit_token(key).c_str(), obs);
        return obs;
  }

  std::string batch_note(const std::vector<std::pair<std::string, int>> &prog, int a, int b) {
    (void)prog; (void)a; (void)b;
    return "";
  }

  static std::string result_str(const OpRec &o) {
    if (o.kind == O_GET || o.kind == O_SNAPGET) {
      std::string s;
      for (auto &v : o.vals) s += v.first ? lit_token(v.second).substr(0, 16) + " " : "- ";
      return s;
    }
    if (o.kind == O_SCAN) return sfmt("%zu entries", o.scan.size());
    return sfmt("rc=%d", o.rc);
  }

  void cleanup() {
    if (sched_active()) sched_end();
    io_reset();
    rm_rf(dir);
  }
};

// one execution; returns false on violation
static bool run_one(const Case &c, Report *rep, Violation *v, const std::vector<uint32_t> *forced, ConcRunner **out_runner = nullptr, bool count_nt = true) {
  ConcRunner *r = new ConcRunner(rep);
  r->case_hash = fnv1a(c.str());
  bool ok = true;
  try {
    r->run(c, forced);
  } catch (const Violation &x) {
    *v = x;
    ok = false;
  }
  const SchedStats &st = sched_stats();
  if (ok && count_nt) {
    uint64_t h = r->case_hash;
    for (uint32_t ch : sched_choices()) h = h * 1099511628211ULL ^ ch;
    if (r->overlapping_rw) rep->fp("C08.nt", h);
    if (st.cond_waits > 0 && st.cond_wakes > 0) rep->fp("C09.nt", h);
    bool multi_batch = false;
    for (auto &o : r->ops) if (o.kind == O_BATCH && o.ups.size() >= 2) multi_batch = true;
    if (multi_batch && r->overlapping_rw) rep->fp("C04.nt", h);
    if (r->backups_checked > 0 && r->overlapping_rw) rep->fp("C20.nt", h);
    if (r->backups_checked > 0) rep->count("backups_concurrent_with_writers", r->backups_checked);
    rep->count("steps", (long long)st.steps);
    rep->count("choice_points", (long long)st.choice_points);
    rep->count("switches", (long long)st.switches);
    rep->count("cond_waits", (long long)st.cond_waits);
    rep->count("spurious_wakes", (long long)st.spurious_wakes);
    rep->count("mutex_blocks", (long long)st.mutex_blocks);
    if (st.cond_waits > 0) rep->count("class.blocked_in_cond_wait");
    if (st.mutex_blocks > 0) rep->count("class.blocked_on_mutex");
    if (r->overlapping_rw) rep->count("class.overlapping_read_write");
    rep->count(sfmt("class.threads=%d", (int)st.threads_created));
  }
  r->cleanup();
  if (out_runner) *out_runner = r; else delete r;
  return ok;
}

static std::string with_choices(const std::string &text) {
  std::string s = text, line = "choices";
  for (uint32_t c : sched_choices()) line += " " + std::to_string(c);
  // drop an existing choices line
  Case c = parse_case(text);
  std::string out;
  for (auto &op : c.ops) if (op.name != "choices") out += op.str() + "\n";
  return out + line + "\n";
}

// bounded-exhaustive exploration of the schedules of one small program (preemption bound)
static long dfs_schedules(const Case &c, Report *rep, int bound, long max_runs, Violation *v, std::string *failing) {
  std::vector<std::vector<uint32_t>> stack;
  stack.push_back({});
  long runs = 0;
  std::set<std::string> seen_prefix;
  while (!stack.empty() && runs < max_runs) {
    std::vector<uint32_t> prefix = stack.back();
    stack.pop_back();
    Violation vi;
    bool ok = run_one(c, rep, &vi, &prefix, nullptr, true);
    runs++;
    std::vector<uint32_t> ch = sched_choices(), ar = sched_choice_arity();
    std::vector<int32_t> cur = sched_choice_curidx();
    if (!ok) { *v = vi; std::string t; for (auto &op : c.ops) if (op.name != "choices") t += op.str() + "\n"; t += "choices"; for (uint32_t x : ch) t += " " + std::to_string(x); *failing = t + "\n"; return -runs; }
    // preemptions used along the executed path
    std::vector<int> pre(ch.size() + 1, 0);
    for (size_t i = 0; i < ch.size(); i++) pre[i + 1] = pre[i] + ((cur[i] >= 0 && (int)ch[i] != cur[i]) ? 1 : 0);
    // branch on every choice point at or beyond the forced prefix
    for (size_t i = prefix.size(); i < ch.size(); i++) {
      for (uint32_t alt = 0; alt < ar[i]; alt++) {
        if (alt == ch[i]) continue;
        int cost = pre[i] + ((cur[i] >= 0 && (int)alt != cur[i]) ? 1 : 0);
        if (cost > bound) continue;
        std::vector<uint32_t> np(ch.begin(), ch.begin() + i);
        np.push_back(alt);
        stack.push_back(np);
      }
    }
  }
  if (stack.empty()) rep->count("dfs_programs_fully_enumerated");
  return runs;
}

int main(int argc, char **argv) {
  std::string replay, kind = "C08", out = "";
  uint64_t seed = 1;
  long count = 10;
  double budget = 1e9;
  int maxsize = 100;
  for (int i = 1; i < argc; i++) {
    std::string a = argv[i];
    auto next = [&]() -> std::string { return (i + 1 < argc) ? argv[++i] : ""; };
    if (a == "--replay") replay = next();
    else if (a == "--kind") kind = next();
    else if (a == "--seed") seed = strtoull(next().c_str(), nullptr, 10);
    else if (a == "--count") count = atol(next().c_str());
    else if (a == "--worker") g_worker = atoi(next().c_str());
    else if (a == "--out") out = next();
    else if (a == "--budget") budget = atof(next().c_str());
    else if (a == "--maxsize") maxsize = atoi(next().c_str());
    else if (a == "--known") next();
  }
  signal(SIGPIPE, SIG_IGN);
  setvbuf(stdout, nullptr, _IOLBF, 0);
  sched_set_fatal_hook(fatal_hook);
  g_out_dir = out;
  Report rep;
  int rc = 0;
  bool thorough = kind.find("-thorough") != std::string::npos;
  if (!replay.empty()) {
    g_in_replay = true;
    std::string text;
    if (!read_file(replay, text)) { fprintf(stderr, "cannot read %s\n", replay.c_str()); return 2; }
    g_current_text = text;
    Case c = parse_case(text);
    Violation v;
    if (!run_one(c, &rep, &v, nullptr)) { printf("FAIL property=%s msg=%s\n", v.prop.c_str(), v.msg.c_str()); rc = 3; }
    else printf("PASS\n");
    scratch_cleanup();
    return rc;
  }
  double t0 = now_s();
  for (long i = 0; i < count && rc == 0; i++) {
    if (now_s() - t0 > budget) { rep.count("budget_exhausted"); break; }
    uint64_t cs = seed * 1000003ULL + (uint64_t)g_worker * 7919ULL + (uint64_t)i;
    int size = (int)((i * 3) % (maxsize + 1));
    std::string text = gen_case(kind.c_str(), cs, size);
    g_current_text = text;
    if (!out.empty()) write_file(out + sfmt("/w%d.current.case", g_worker), text);
    Case c = parse_case(text);
    bool tiny = false;
    for (auto &op : c.ops) if (op.name == "dfs") tiny = true;
    Violation v;
    if (tiny) {
      std::string failing;
      long runs = dfs_schedules(c, &rep, 2, thorough ? 4000 : 120, &v, &failing);
      rep.count("dfs_programs");
      rep.count("dfs_schedules", runs < 0 ? -runs : runs);
      rep.count("cases", runs < 0 ? -runs : runs);
      if (runs < 0) {
        std::string fn = out.empty() ? std::string("failing.case") : out + sfmt("/w%d.failing.case", g_worker);
        write_file(fn, failing);
        printf("FAIL property=%s case=%s msg=%s\n", v.prop.c_str(), fn.c_str(), v.msg.c_str());
        rc = 3;
      }
      continue;
    }
    // several schedules per program: the program is cheap to generate, the schedule space is what matters
    int nsched = thorough ? 12 : 5;
    for (int s = 0; s < nsched && rc == 0; s++) {
      std::string t2 = text + sfmt("config sseed=%llu\n", (unsigned long long)(cs * 31 + s));
      // a later config line overrides the seed only (DbConfig/Sched parse every config line in order)
      Case c2 = parse_case(t2);
      g_current_text = t2;
      if (!out.empty()) write_file(out + sfmt("/w%d.current.case", g_worker), t2);
      bool ok = run_one(c2, &rep, &v, nullptr);
      rep.count("cases");
      if (!ok) {
        // freeze the schedule that failed into the case so that replay and ddmin are deterministic
        std::string fn = out.empty() ? std::string("failing.case") : out + sfmt("/w%d.failing.case", g_worker);
        write_file(fn, t2);
        printf("FAIL property=%s case=%s msg=%s\n", v.prop.c_str(), fn.c_str(), v.msg.c_str());
        rc = 3;
      }
      if (i < 2 && s == 0) rep.sample(t2.size() > 1500 ? t2.substr(0, 1500) + "...\n" : t2);
    }
  }
  if (!out.empty()) {
    unlink((out + sfmt("/w%d.current.case", g_worker)).c_str());
    write_file(out + sfmt("/w%d.json", g_worker), rep.json());
  }
  scratch_cleanup();
  return rc;
}
