// corrupt — single-fault mutation of the files of generated closed databases (C11).
//
// A generated history builds a small database (several tables over >= 2
// levels, a live log, a MANIFEST with several records) and closes it.  Then
// every chosen (file, offset, alteration) is applied in place, the database is
// opened with paranoid_checks=1 and read with verify_checksums=1 through fresh
// caches, judged, and the file is restored.
//
// Tables: every ldb_get returns the model's answer or an error status; scans in
// both directions are judged as (entries, final status): status OK => entries
// equal the model exactly.  Log / MANIFEST / CURRENT: open may fail and batches
// may be missing, but every present value was written for that key and every
// batch is whole (marker keys).
#include <signal.h>
#include <stdio.h>
#include <stdlib.h>
#include <string.h>
#include <time.h>
#include <unistd.h>

#include <set>

#include "../layout.h"
#include "../lc.h"
#include "../ref/ref.h"
#include "../util.h"
#include "../vfio.h"
#include "../vfsched.h"

namespace vf {
std::string gen_case(const char *kind, uint64_t seed, int size);
}
using namespace vf;

struct Violation { std::string prop, msg; };
#define VF_FAIL(prop, ...) throw Violation{prop, sfmt(__VA_ARGS__)}

static double now_s() {
  struct timespec ts;
  clock_gettime(CLOCK_MONOTONIC, &ts);
  return ts.tv_sec + ts.tv_nsec * 1e-9;
}

struct Update { bool put; std::string key, value; };
struct WriteRec { int idx; std::vector<Update> ups; };

static std::string marker_key(int idx, char which) { return std::string("\0M", 2) + sfmt("%06d%c", idx, which); }
static bool parse_marker(const std::string &k, int *idx, char *which) {
  if (k.size() != 9 || k[0] != 0 || k[1] != 'M') return false;
  *idx = atoi(k.substr(2, 6).c_str());
  *which = k[8];
  return true;
}

struct Mutation {
  std::string file;
  size_t off = 0;
  char mode = 'x';   // x: xor bit, s: set byte, t: truncate at off, z: zero 512-byte sector
  int val = 1;
  std::string str() const { return sfmt("mutate %s off=%zu mode=%c val=%d", file.c_str(), off, mode, val); }
};

class CorruptRunner {
 public:
  explicit CorruptRunner(Report *r) : rep(r) {}
  Report *rep;
  DbConfig cfg;
  std::string dir;
  std::vector<WriteRec> writes;
  KeyLess less;
  ModelMap model{KeyLess()};                          // user keys + markers: full expected contents
  std::map<std::string, std::set<std::string>> ever;  // key -> every value ever written to it
  std::set<std::string> ever_deleted;
  std::map<std::string, std::string> pristine;        // file -> bytes
  uint64_t case_hash = 0;

  void build(const Case &c) {
    for (auto &op : c.ops) if (op.name == "config") { cfg.apply(op); break; }
    cfg.paranoid = 1;
    less.kind = cmp_kind_of(cfg.cmp);
    model = ModelMap(less);
    static int seq = 0;
    dir = scratch_root() + sfmt("/cor%d", seq++);
    rm_rf(dir);
    io_reset();
    io_set_root(dir);
    SchedConfig sc;
    sc.strategy = ST_EAGER;
    sc.step_limit = 20000000;
    sched_begin(sc);
    DbOptions opts;
    opts.build(cfg);
    ldb_t *db = nullptr;
    if (ldb_open(dir.c_str(), &opts.opt, &db) != LDB_OK) VF_FAIL("C01", "open failed while building");
    for (auto &op : c.ops) {
      const std::string &n = op.name;
      if (n == "put" || n == "del" || n == "batch") {
        WriteRec w;
        w.idx = (int)writes.size();
        if (n == "put") { Update u; u.put = true; if (op.args.size() >= 2 && expand_bytes(op.args[0], u.key) && expand_bytes(op.args[1], u.value)) w.ups.push_back(u); }
        else if (n == "del") { Update u; u.put = false; if (op.args.size() >= 1 && expand_bytes(op.args[0], u.key)) w.ups.push_back(u); }
        else for (auto &a : op.args) {
          Update u;
          if (a.compare(0, 2, "p:") == 0) { size_t cp = a.find(':', 2); if (cp == std::string::npos) continue; u.put = true; if (!expand_bytes(a.substr(2, cp - 2), u.key) || !expand_bytes(a.substr(cp + 1), u.value)) continue; w.ups.push_back(u); }
          else if (a.compare(0, 2, "d:") == 0) { u.put = false; if (!expand_bytes(a.substr(2), u.key)) continue; w.ups.push_back(u); }
        }
        bool clash = false;
        for (auto &u : w.ups) if (u.key.size() >= 2 && u.key[0] == 0 && u.key[1] == 'M') clash = true;
        if (clash || w.ups.empty()) continue;
        ldb_batch_t *b = ldb_batch_create();
        std::string mk = marker_key(w.idx, 'a'), mv = sfmt("%d", w.idx), mz = marker_key(w.idx, 'z');
        ldb_slice_t ka = slice_of(mk), va = slice_of(mv), kz = slice_of(mz);
        ldb_batch_put(b, &ka, &va);
        for (auto &u : w.ups) { ldb_slice_t k2 = slice_of(u.key), v2 = slice_of(u.value); if (u.put) ldb_batch_put(b, &k2, &v2); else ldb_batch_del(b, &k2); }
        ldb_batch_put(b, &kz, &va);
        int rc = ldb_write(db, b, nullptr);
        ldb_batch_destroy(b);
        if (rc != LDB_OK) VF_FAIL("C01", "write failed while building");
        model[mk] = std::make_shared<const std::string>(mv);
        model[mz] = std::make_shared<const std::string>(mv);
        ever[mk].insert(mv); ever[mz].insert(mv);
        for (auto &u : w.ups) {
          if (u.put) { model[u.key] = std::make_shared<const std::string>(u.value); ever[u.key].insert(u.value); }
          else { model.erase(u.key); ever_deleted.insert(u.key); ever[u.key]; }
        }
        writes.push_back(w);
      } else if (n == "flush") ldb_test_compact_memtable(db);
      else if (n == "crange") { int lv = op.args.size() ? atoi(op.args[0].c_str()) : 0; if (lv >= 0 && lv <= 5) ldb_test_compact_range(db, lv, nullptr, nullptr); }
      else if (n == "reopen") { ldb_close(db); sched_quiesce(); if (ldb_open(dir.c_str(), &opts.opt, &db) != LDB_OK) VF_FAIL("C05", "clean reopen failed while building"); }
    }
    ldb_close(db);
    sched_end();
    opts.clear();
    for (auto &n : list_dir(dir)) {
      if (n == "LOCK" || n == "LOG" || n == "LOG.old") continue;
      std::string b;
      if (read_file(dir + "/" + n, b)) pristine[n] = b;
    }
  }

  // Which offsets of a table are structural (footer, index, metaindex, filter, block trailers)?
  std::vector<size_t> structural_offsets(const std::string &bytes) {
    std::vector<size_t> out;
    ref::Table t;
    std::string err;
    if (!ref::table_decode(bytes, &t, &err) || bytes.size() < 48) return out;
    for (size_t i = bytes.size() - 48; i < bytes.size(); i++) out.push_back(i);
    const uint8_t *f = (const uint8_t *)bytes.data() + bytes.size() - 48;
    ref::Reader fr(f, 40);
    ref::Handle meta, index;
    ref::handle_decode(fr, &meta);
    ref::handle_decode(fr, &index);
    auto add = [&](const ref::Handle &h, size_t cap) {
      size_t n = 0;
      for (size_t i = h.offset; i < h.offset + h.size + 5 && i < bytes.size() && n < cap; i++, n++) out.push_back(i);
    };
    add(index, 400);
    add(meta, 200);
    for (auto &h : t.block_handles) { for (size_t i = h.offset + h.size; i < h.offset + h.size + 5 && i < bytes.size(); i++) out.push_back(i); }
    // first bytes of each data block (entry headers) and the restart array at its end
    for (auto &h : t.block_handles) {
      for (size_t i = h.offset; i < h.offset + 6 && i < bytes.size(); i++) out.push_back(i);
      for (size_t i = (h.size >= 8 ? h.offset + h.size - 8 : h.offset); i < h.offset + h.size && i < bytes.size(); i++) out.push_back(i);
    }
    return out;
  }

  void apply(const Mutation &m) {
    std::string b = pristine[m.file];
    if (m.mode == 't') b.resize(std::min(m.off, b.size()));
    else if (m.mode == 'z') { size_t s = (m.off / 512) * 512; for (size_t i = s; i < s + 512 && i < b.size(); i++) b[i] = 0; }
    else if (m.off < b.size()) { if (m.mode == 'x') b[m.off] = (char)(b[m.off] ^ (char)m.val); else b[m.off] = (char)m.val; }
    write_file(dir + "/" + m.file, b);
  }
  void restore(const Mutation &m) { write_file(dir + "/" + m.file, pristine[m.file]); }
  void restore_all() {
    // an open of a damaged database may have created or deleted files: put the directory back
    for (auto &n : list_dir(dir)) if (!pristine.count(n) && n != "lost") unlink((dir + "/" + n).c_str());
    for (auto &p : pristine) {
      std::string cur;
      if (!read_file(dir + "/" + p.first, cur) || cur != p.second) write_file(dir + "/" + p.first, p.second);
    }
  }

  // returns true when the mutation was detected (error status somewhere), false when harmless
  // For a damaged log / MANIFEST / CURRENT the clause ("may cost records or make open fail, but never yields a value that
  // was not written or a partially applied batch") carries no option precondition: such files are judged a second time
  // with paranoid_checks=0, where recovery skips what it cannot read instead of failing.
  long njudged_tables = 0, after_compaction = 0;
  bool judge(const Mutation &m, int paranoid = 1) {
    const char *cls = io_file_class(m.file);
    bool is_table = !strcmp(cls, "table");
    DbConfig jc = cfg;
    jc.paranoid = paranoid;
    DbOptions opts;
    opts.build(jc);   // fresh block cache and table cache per open
    opts.opt.create_if_missing = 0;
    SchedConfig sc;
    sc.strategy = ST_EAGER;
    sc.step_limit = 20000000;
    io_reset();
    io_set_root(dir);
    sched_begin(sc);
    ldb_t *db = nullptr;
    int rc = ldb_open(dir.c_str(), &opts.opt, &db);
    bool detected = false;
    std::string fail_msg, fail_prop;
    if (rc != LDB_OK) {
      detected = true;   // reported at open
    } else {
      ldb_readopt_t ro = *ldb_readopt_default;
      ro.verify_checksums = 1;
      // Every third damaged table is judged a second time after a full manual compaction has been attempted on the
      // damaged database: a compaction that reads the damaged table must fail (or carry every live key over), never
      // install a result that silently lacks live keys (added after seed C11e).  Reads are judged by the same rule.
      int rounds = (is_table && paranoid && (njudged_tables++ % 3) == 0) ? 2 : 1;
      for (int round = 0; round < rounds && fail_msg.empty(); round++) {
      if (round == 1) {
        // compact the level that holds the damaged table (with whatever overlaps it one level down); when that table is
        // the only input -- it sits in the deepest populated level -- a compaction that overlooks the read error would
        // install an empty result and delete the table
        int lvl = -1;
        char *txt = nullptr;
        if (ldb_property(db, "leveldb.sstables", &txt) && txt) {
          Layout L; std::string err;
          uint64_t num = strtoull(m.file.c_str(), nullptr, 10);
          if (parse_layout(txt, L, &err)) for (int lv = 0; lv < 7; lv++) for (auto &f : L.levels[lv]) if (f.number == num) lvl = lv;
          ldb_free(txt);
        }
        if (lvl >= 0 && lvl <= 5) ldb_test_compact_range(db, lvl, nullptr, nullptr);
        else ldb_compact(db, nullptr, nullptr);
        after_compaction++;
        if (lvl >= 0) rep->count(sfmt("rejudged_after_compaction_of_level_%d", lvl));
      }
      // point lookups
      for (auto &e : ever) {
        const std::string &k = e.first;
        ldb_slice_t ks = slice_of(k), val;
        int g = ldb_get(db, &ks, &val, &ro);
        auto mi = model.find(k);
        if (g == LDB_OK) {
          std::string got = str_of(val);
          ldb_free(val.data);
          if (is_table) {
            if (mi == model.end()) { fail_msg = sfmt("get(%s) returns a value although the key is deleted/absent", lit_token(k).substr(0, 40).c_str()); break; }
            if (got != *mi->second) { fail_msg = sfmt("get(%s) returns a wrong value (len %zu)", lit_token(k).substr(0, 40).c_str(), got.size()); break; }
          } else if (!e.second.count(got)) { fail_msg = sfmt("get(%s) returns a value that was never written for that key", lit_token(k).substr(0, 40).c_str()); break; }
        } else if (g == LDB_NOTFOUND) {
          if (is_table && mi != model.end()) { fail_msg = sfmt("get(%s) returns NOTFOUND for a live key (silently omitted)", lit_token(k).substr(0, 40).c_str()); break; }
        } else detected = true;
      }
      // lookups through an iterator: seek to a live key and look at the status while the iterator is still positioned
      // (an application that uses seek + compare as its lookup never runs the iterator to its end)
      if (is_table && fail_msg.empty()) {
        ldb_iter_t *it = ldb_iterator(db, &ro);
        int cnt = 0;
        for (auto mi = model.begin(); mi != model.end() && fail_msg.empty() && cnt < 48; ++mi, ++cnt) {
          ldb_slice_t ks = slice_of(mi->first);
          ldb_iter_seek(it, &ks);
          int st = ldb_iter_status(it);
          if (st != LDB_OK) { detected = true; continue; }
          if (!ldb_iter_valid(it) || str_of(ldb_iter_key(it)) != mi->first)
            fail_msg = sfmt("seek(%s) leaves the iterator %s with status OK: the live key is silently omitted", lit_token(mi->first).substr(0, 40).c_str(),
                            ldb_iter_valid(it) ? "on a later key" : "exhausted");
          else if (str_of(ldb_iter_value(it)) != *mi->second)
            fail_msg = sfmt("seek(%s) yields a wrong value with status OK", lit_token(mi->first).substr(0, 40).c_str());
        }
        ldb_iter_destroy(it);
      }
      // scans in both directions
      for (int dirn = 0; dirn < 2 && fail_msg.empty(); dirn++) {
        std::vector<std::pair<std::string, std::string>> got;
        ldb_iter_t *it = ldb_iterator(db, &ro);
        if (dirn == 0) for (ldb_iter_first(it); ldb_iter_valid(it); ldb_iter_next(it)) got.push_back({str_of(ldb_iter_key(it)), str_of(ldb_iter_value(it))});
        else for (ldb_iter_last(it); ldb_iter_valid(it); ldb_iter_prev(it)) got.push_back({str_of(ldb_iter_key(it)), str_of(ldb_iter_value(it))});
        int st = ldb_iter_status(it);
        ldb_iter_destroy(it);
        if (st != LDB_OK) { detected = true; continue; }
        if (dirn == 1) std::reverse(got.begin(), got.end());
        if (is_table) {
          // status OK => exactly the model
          bool same = got.size() == model.size();
          auto mi = model.begin();
          for (size_t i = 0; same && i < got.size(); i++, ++mi) if (got[i].first != mi->first || got[i].second != *mi->second) same = false;
          if (!same) fail_msg = sfmt("%s scan ends with status OK but yields %zu entries that differ from the %zu live ones", dirn ? "backward" : "forward", got.size(), model.size());
        } else {
          std::map<int, int> marks;
          for (auto &kv : got) {
            int idx; char which;
            auto ev = ever.find(kv.first);
            if (ev == ever.end() || !ev->second.count(kv.second)) { fail_msg = sfmt("scan yields (%s, len %zu) which was never written", lit_token(kv.first).substr(0, 40).c_str(), kv.second.size()); break; }
            if (parse_marker(kv.first, &idx, &which)) marks[idx] |= (which == 'a') ? 1 : 2;
          }
          for (auto &mk : marks) if (mk.second != 3 && fail_msg.empty()) fail_msg = sfmt("batch %d is partially applied", mk.first);
        }
      }
      if (round == 1 && !fail_msg.empty()) fail_msg += " [after a manual compaction of the damaged database]";
      }
      ldb_close(db);
    }
    sched_end();
    opts.clear();
    if (!fail_msg.empty()) VF_FAIL("C11", "%s%s: %s", m.str().c_str(), paranoid ? "" : " (opened with paranoid_checks=0)", fail_msg.c_str());
    return detected;
  }

  void cleanup() {
    if (sched_active()) sched_end();
    io_reset();
    rm_rf(dir);
  }
};

static bool parse_mutation(const Op &op, Mutation *m) {
  if (op.args.empty()) return false;
  m->file = op.args[0];
  m->off = (size_t)op.geti("off", 0);
  m->mode = op.get("mode", "x")[0];
  m->val = (int)op.geti("val", 1);
  return true;
}

int main(int argc, char **argv) {
  std::string replay, kind = "C11", out = "";
  uint64_t seed = 1;
  long count = 10;
  double budget = 1e9;
  int maxsize = 100, worker = 0;
  for (int i = 1; i < argc; i++) {
    std::string a = argv[i];
    auto next = [&]() -> std::string { return (i + 1 < argc) ? argv[++i] : ""; };
    if (a == "--replay") replay = next();
    else if (a == "--kind") kind = next();
    else if (a == "--seed") seed = strtoull(next().c_str(), nullptr, 10);
    else if (a == "--count") count = atol(next().c_str());
    else if (a == "--worker") worker = atoi(next().c_str());
    else if (a == "--out") out = next();
    else if (a == "--budget") budget = atof(next().c_str());
    else if (a == "--maxsize") maxsize = atoi(next().c_str());
    else if (a == "--known") next();
  }
  signal(SIGPIPE, SIG_IGN);
  setvbuf(stdout, nullptr, _IOLBF, 0);
  Report rep;
  int rc = 0;
  bool thorough = kind.find("-thorough") != std::string::npos;
  if (!replay.empty()) {
    std::string text;
    if (!read_file(replay, text)) { fprintf(stderr, "cannot read %s\n", replay.c_str()); return 2; }
    Case c = parse_case(text);
    CorruptRunner r(&rep);
    try {
      r.build(c);
      int n = 0;
      for (auto &op : c.ops) {
        Mutation m;
        if (op.name != "mutate" || !parse_mutation(op, &m)) continue;
        if (!r.pristine.count(m.file)) continue;
        r.apply(m);
        r.judge(m);
        r.restore_all();
        if (strcmp(io_file_class(m.file), "table")) { r.apply(m); r.judge(m, 0); r.restore_all(); }
        n++;
      }
      printf("PASS mutations=%d\n", n);
    } catch (const Violation &v) { printf("FAIL property=%s msg=%s\n", v.prop.c_str(), v.msg.c_str()); rc = 3; }
    r.cleanup();
    scratch_cleanup();
    return rc;
  }
  double t0 = now_s();
  for (long i = 0; i < count && rc == 0; i++) {
    if (now_s() - t0 > budget) { rep.count("budget_exhausted"); break; }
    uint64_t cs = seed * 1000003ULL + (uint64_t)worker * 7919ULL + (uint64_t)i;
    int size = 20 + (int)((i * 11) % (maxsize - 19));
    std::string text = gen_case(kind.c_str(), cs, size);
    if (!out.empty()) write_file(out + sfmt("/w%d.current.case", worker), text);
    Case c = parse_case(text);
    CorruptRunner r(&rep);
    r.case_hash = fnv1a(text);
    Mutation cur;
    try {
      r.build(c);
      rep.count("databases");
      int ntables = 0;
      for (auto &p : r.pristine) if (!strcmp(io_file_class(p.first), "table")) ntables++;
      rep.count("tables", ntables);
      // the pristine database must read back exactly (otherwise every judgement below is meaningless)
      { Mutation none; none.file = r.pristine.begin()->first; none.mode = 'x'; none.off = (size_t)-1; r.apply(none); if (r.judge(none)) VF_FAIL("C11", "the undamaged database already reports errors"); r.restore_all(); }
      uint64_t rng = cs ^ 0xC0FFEE;
      long per_db = thorough ? 1000000 : 1600;
      long done = 0;
      std::map<std::string, long> class_done;
      std::map<std::string, long> class_quota = {{"table", thorough ? 1000000 : 1000}, {"log", thorough ? 1000000 : 220}, {"manifest", thorough ? 1000000 : 260}, {"current", 120}};
      // order files: tables first (the strict clause), then log, MANIFEST, CURRENT
      std::vector<std::string> files;
      for (auto &p : r.pristine) if (!strcmp(io_file_class(p.first), "table")) files.push_back(p.first);
      for (auto &p : r.pristine) if (strcmp(io_file_class(p.first), "table")) files.push_back(p.first);
      for (auto &fname : files) {
        const std::string &bytes = r.pristine[fname];
        const char *cls = io_file_class(fname);
        bool is_table = !strcmp(cls, "table");
        std::vector<size_t> offs;
        bool exhaustive = thorough && bytes.size() <= 40000;
        if (exhaustive) { for (size_t o = 0; o < bytes.size(); o++) offs.push_back(o); rep.count("files_exhaustively_mutated"); }
        else {
          if (is_table) offs = r.structural_offsets(bytes);
          else {
            // log-format files: the header region of every 32 KiB block first (a record that spans blocks continues there;
            // the per-class quota would otherwise be used up by the first 200 bytes)
            for (size_t b = 32768; b < bytes.size(); b += 32768) for (size_t o = b; o < b + 8 && o < bytes.size(); o++) offs.push_back(o);
            for (size_t o = 0; o < bytes.size() && o < 200; o++) offs.push_back(o);
          }
          size_t extra = is_table ? 160 : 60;
          for (size_t k = 0; k < extra && !bytes.empty(); k++) offs.push_back((size_t)(splitmix(rng) % bytes.size()));
        }
        for (size_t o : offs) {
          if (done >= per_db || now_s() - t0 > budget) break;
          if (class_done[cls] >= class_quota[cls]) break;
          std::vector<Mutation> ms;
          if (exhaustive) {
            for (int b = 0; b < 8; b++) ms.push_back(Mutation{fname, o, 'x', 1 << b});
            ms.push_back(Mutation{fname, o, 's', 0});
            ms.push_back(Mutation{fname, o, 's', 255});
            ms.push_back(Mutation{fname, o, 't', 0});
            if (o % 512 == 0) ms.push_back(Mutation{fname, o, 'z', 0});
          } else {
            uint64_t r2 = splitmix(rng);
            ms.push_back(Mutation{fname, o, 'x', 1 << (r2 & 7)});
            if (!is_table && o >= 32768 && o % 32768 == 0) ms.push_back(Mutation{fname, o, 'z', 0});   // a zeroed sector at a block start
            switch ((r2 >> 8) % 6) {
              case 0: ms.push_back(Mutation{fname, o, 's', 0}); break;
              case 1: ms.push_back(Mutation{fname, o, 's', 255}); break;
              case 2: ms.push_back(Mutation{fname, o, 't', 0}); break;
              case 3: ms.push_back(Mutation{fname, o, 'z', 0}); break;
              default: ms.push_back(Mutation{fname, o, 'x', 1 << ((r2 >> 16) & 7)}); break;
            }
          }
          for (auto &m : ms) {
            if ((m.mode == 's' && o < bytes.size() && (unsigned char)bytes[o] == (unsigned char)m.val)) continue;
            cur = m;
            if (!out.empty() && (done % 64) == 0) write_file(out + sfmt("/w%d.current.case", worker), text + m.str() + "\n");
            r.apply(m);
            bool det = r.judge(m);
            r.restore_all();
            if (!is_table) { r.apply(m); r.judge(m, 0); r.restore_all(); rep.count("log_manifest_damage_judged_without_paranoid"); }
            done++;
            class_done[cls]++;
            rep.count("cases");
            rep.count(det ? "detected" : "harmless");
            rep.count(std::string("class.") + cls + "." + (m.mode == 'x' ? "bitflip" : m.mode == 's' ? "setbyte" : m.mode == 't' ? "truncate" : "zerosector"));
            rep.fp("C11.nt", fnv1a(sfmt("%016llx/%s/%zu/%c/%d", (unsigned long long)r.case_hash, fname.c_str(), o, m.mode, m.val)));
          }
        }
      }
      if (i < 2) rep.sample(text.size() > 800 ? text.substr(0, 800) + "...\n" : text);
    } catch (const Violation &v) {
      std::string fn = out.empty() ? std::string("failing.case") : out + sfmt("/w%d.failing.case", worker);
      write_file(fn, text + cur.str() + "\n");
      printf("FAIL property=%s case=%s msg=%s\n", v.prop.c_str(), fn.c_str(), v.msg.c_str());
      rc = 3;
    }
    rep.count("table_damage_rejudged_after_compaction", r.after_compaction);
    r.cleanup();
  }
  if (!out.empty()) {
    unlink((out + sfmt("/w%d.current.case", worker)).c_str());
    write_file(out + sfmt("/w%d.json", worker), rep.json());
  }
  scratch_cleanup();
  return rc;
}
