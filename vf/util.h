// Small harness utilities: scratch directories, recursive removal, directory
// listing, JSON string escaping, counter files.
#ifndef VF_UTIL_H
#define VF_UTIL_H

#include <dirent.h>
#include <errno.h>
#include <ftw.h>
#include <stdarg.h>
#include <stdio.h>
#include <stdlib.h>
#include <string.h>
#include <sys/stat.h>
#include <unistd.h>

#include <algorithm>
#include <map>
#include <set>
#include <string>
#include <vector>

namespace vf {

inline int rm_cb(const char *p, const struct stat *, int, struct FTW *) { return remove(p); }
inline void rm_rf(const std::string &path) {
  if (path.size() < 10) return;  // never remove something short by accident
  nftw(path.c_str(), rm_cb, 32, FTW_DEPTH | FTW_PHYS);
}

inline std::string scratch_root() {
  static std::string root;
  if (root.empty()) {
    const char *base = getenv("VERIF_SCRATCH");
    char buf[256];
    snprintf(buf, sizeof buf, "%s/lcdb-verif.%d", base ? base : "/dev/shm", (int)getpid());
    root = buf;
    mkdir(root.c_str(), 0755);
  }
  return root;
}

inline void scratch_cleanup() { rm_rf(scratch_root()); }

inline std::vector<std::string> list_dir(const std::string &dir) {
  std::vector<std::string> out;
  DIR *d = opendir(dir.c_str());
  if (!d) return out;
  while (struct dirent *e = readdir(d)) {
    std::string n = e->d_name;
    if (n == "." || n == "..") continue;
    out.push_back(n);
  }
  closedir(d);
  std::sort(out.begin(), out.end());
  return out;
}

inline long long file_size(const std::string &p) {
  struct stat st;
  if (stat(p.c_str(), &st) != 0) return -1;
  return (long long)st.st_size;
}

inline std::string json_str(const std::string &s) {
  std::string o = "\"";
  for (unsigned char c : s) {
    if (c == '"') o += "\\\"";
    else if (c == '\\') o += "\\\\";
    else if (c == '\n') o += "\\n";
    else if (c < 0x20 || c >= 0x7f) { char b[8]; snprintf(b, sizeof b, "\\u%04x", c); o += b; }
    else o += (char)c;
  }
  o += "\"";
  return o;
}

inline std::string sfmt(const char *fmt, ...) {
  char buf[4096];
  va_list ap;
  va_start(ap, fmt);
  vsnprintf(buf, sizeof buf, fmt, ap);
  va_end(ap);
  return buf;
}

// Counters + fingerprints + samples that every worker dumps as JSON for the driver.
struct Report {
  std::map<std::string, long long> counters;
  std::map<std::string, std::set<uint64_t>> fingerprints;  // distinct sets by name
  std::vector<std::string> samples;
  std::vector<std::string> notes;
  size_t max_samples = 3;

  void count(const std::string &k, long long d = 1) { counters[k] += d; }
  void fp(const std::string &set, uint64_t h) { fingerprints[set].insert(h); }
  void sample(const std::string &s) { if (samples.size() < max_samples) samples.push_back(s); }

  std::string json() const {
    std::string o = "{\"counters\":{";
    bool first = true;
    for (auto &p : counters) { if (!first) o += ","; first = false; o += json_str(p.first) + ":" + std::to_string(p.second); }
    o += "},\"fingerprints\":{";
    first = true;
    for (auto &p : fingerprints) {
      if (!first) o += ","; first = false;
      o += json_str(p.first) + ":[";
      bool f2 = true; size_t n = 0;
      for (uint64_t h : p.second) { if (n++ >= 200000) break; if (!f2) o += ","; f2 = false; o += "\"" + sfmt("%016llx", (unsigned long long)h) + "\""; }
      o += "]";
    }
    o += "},\"samples\":[";
    first = true;
    for (auto &s : samples) { if (!first) o += ","; first = false; o += json_str(s); }
    o += "],\"notes\":[";
    first = true;
    for (auto &s : notes) { if (!first) o += ","; first = false; o += json_str(s); }
    o += "]}";
    return o;
  }
};

}  // namespace vf

#endif
