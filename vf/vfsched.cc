// vfsched implementation.  See sched.h.
#include "vfsched.h"

#include <errno.h>
#include <pthread.h>
#include <semaphore.h>
#include <stdio.h>
#include <stdlib.h>
#include <string.h>
#include <unistd.h>

#include <sched.h>

#include <algorithm>
#include <atomic>
#include <deque>
#include <unordered_map>

extern "C" {
int __real_pthread_mutex_init(pthread_mutex_t *, const pthread_mutexattr_t *);
int __real_pthread_mutex_destroy(pthread_mutex_t *);
int __real_pthread_mutex_lock(pthread_mutex_t *);
int __real_pthread_mutex_unlock(pthread_mutex_t *);
int __real_pthread_cond_init(pthread_cond_t *, const pthread_condattr_t *);
int __real_pthread_cond_destroy(pthread_cond_t *);
int __real_pthread_cond_wait(pthread_cond_t *, pthread_mutex_t *);
int __real_pthread_cond_signal(pthread_cond_t *);
int __real_pthread_cond_broadcast(pthread_cond_t *);
int __real_pthread_create(pthread_t *, const pthread_attr_t *, void *(*)(void *), void *);
int __real_pthread_detach(pthread_t);
int __real_pthread_join(pthread_t, void **);
}

namespace vf {

namespace {

enum ThState { RUNNABLE, BLK_MUTEX, BLK_COND, BLK_JOIN, FINISHED };

struct Th {
  int id = 0;
  sem_t sem;
  ThState state = RUNNABLE;
  const void *obj = nullptr;   // what it is blocked on
  bool client = false;
  bool in_cond = false;        // blocked in cond_wait (for stats)
  void *(*start)(void *) = nullptr;
  void *arg = nullptr;
  pthread_t real;
  bool has_real = false;
  uint64_t call_steps = 0;
  bool in_call = false;
  int64_t prio = 0;
};

struct MutexSt { Th *owner = nullptr; };

bool g_active = false;
SchedConfig g_cfg;
SchedStats g_stats;
std::vector<Th *> g_threads;
Th *g_cur = nullptr;
thread_local Th *t_self = nullptr;
std::unordered_map<const void *, MutexSt> g_mutexes;
std::unordered_map<const void *, std::deque<Th *>> g_conds;
std::vector<uint32_t> g_choices, g_arity;
std::vector<int32_t> g_curidx;
uint64_t g_preemptions = 0;
uint64_t g_rng = 88172645463325252ULL;
std::vector<uint64_t> g_pct_points;
}  // namespace
std::atomic<uint64_t> g_delay_seed{0};
namespace {
int64_t g_pct_low = -1;
void (*g_fatal_hook)(const char *) = nullptr;
int g_inflight = 0;
uint64_t g_last_progress = 0;   // step count when an API call last began or returned
Th *g_last_created = nullptr;  // set by the pthread_create wrapper for its caller (baton held)

uint64_t rnd() {
  g_rng ^= g_rng << 13;
  g_rng ^= g_rng >> 7;
  g_rng ^= g_rng << 17;
  return g_rng;
}

const char *state_name(ThState s) {
  switch (s) {
    case RUNNABLE: return "runnable";
    case BLK_MUTEX: return "blocked-mutex";
    case BLK_COND: return "blocked-cond";
    case BLK_JOIN: return "blocked-join";
    case FINISHED: return "finished";
  }
  return "?";
}

[[noreturn]] void fatal(int code, const char *why) {
  fprintf(stderr, "vfsched: %s\n%s", why, sched_dump().c_str());
  fflush(stderr);
  if (g_fatal_hook) g_fatal_hook(why);
  _exit(code);
}

// Hand the baton to `next`; returns when the baton comes back to us.
void switch_to(Th *next) {
  Th *self = t_self;
  if (next == self) return;
  g_stats.switches++;
  g_cur = next;
  bool finished = (self->state == FINISHED);
  sem_t *mine = &self->sem;
  sem_post(&next->sem);
  if (finished) return;  // must not touch *self any more
  while (sem_wait(mine) != 0 && errno == EINTR) {}
}

Th *choose(std::vector<Th *> &run, Th *self, bool exclude_self) {
  // run is sorted by id; self may or may not be in it
  size_t n = run.size();
  int cur = -1;
  for (size_t i = 0; i < n; i++)
    if (run[i] == self) cur = (int)i;
  if (n == 1) return run[0];
  size_t idx = 0;
  size_t cp = g_choices.size();
  switch (g_cfg.strategy) {
    case ST_EAGER: {
      // highest-id background thread, else stay, else lowest-id client
      int pick = -1;
      for (size_t i = 0; i < n; i++)
        if (!run[i]->client) pick = (int)i;
      if (pick < 0) pick = (cur >= 0) ? cur : 0;
      idx = pick;
      break;
    }
    case ST_STARVED: {
      int pick = -1;
      if (cur >= 0 && self->client) pick = cur;
      if (pick < 0)
        for (size_t i = 0; i < n && pick < 0; i++)
          if (run[i]->client) pick = (int)i;
      if (pick < 0) pick = (cur >= 0) ? cur : 0;
      idx = pick;
      break;
    }
    case ST_RANDOM:
      idx = rnd() % n;
      break;
    case ST_PCT: {
      for (size_t k = 0; k < g_pct_points.size(); k++) {
        if (g_pct_points[k] == g_stats.choice_points && cur >= 0) {
          self->prio = g_pct_low--;
        }
      }
      int pick = 0;
      for (size_t i = 1; i < n; i++)
        if (run[i]->prio > run[pick]->prio) pick = (int)i;
      idx = pick;
      break;
    }
    case ST_RR: {
      int pick = -1;
      int base = self ? self->id : -1;
      for (size_t i = 0; i < n && pick < 0; i++)
        if (run[i]->id > base) pick = (int)i;
      if (pick < 0) pick = 0;
      idx = pick;
      break;
    }
    case ST_REPLAY:
    default: {
      if (cp < g_cfg.forced.size()) {
        idx = g_cfg.forced[cp];
        if (idx >= n) idx = n - 1;
      } else {
        idx = (cur >= 0) ? cur : 0;  // non-preemptive continuation
      }
      break;
    }
  }
  (void)exclude_self;
  g_stats.choice_points++;
  g_choices.push_back((uint32_t)idx);
  g_arity.push_back((uint32_t)n);
  g_curidx.push_back(cur);
  if (cur >= 0 && (int)idx != cur) g_preemptions++;
  return run[idx];
}

void runnable_list(std::vector<Th *> &out, Th *exclude) {
  out.clear();
  for (Th *t : g_threads)
    if (t->state == RUNNABLE && t != exclude) out.push_back(t);
}

void maybe_spurious() {
  if (!g_cfg.spurious) return;
  if ((rnd() & 63) != 0) return;
  // wake one random cond waiter
  std::vector<std::pair<const void *, size_t>> cands;
  for (auto &kv : g_conds)
    for (size_t i = 0; i < kv.second.size(); i++) cands.push_back({kv.first, i});
  if (cands.empty()) return;
  std::sort(cands.begin(), cands.end(), [](auto &a, auto &b) {
    Th *x = g_conds[a.first][a.second], *y = g_conds[b.first][b.second];
    return x->id < y->id;
  });
  auto c = cands[rnd() % cands.size()];
  auto &dq = g_conds[c.first];
  Th *t = dq[c.second];
  dq.erase(dq.begin() + c.second);
  t->state = RUNNABLE;
  t->in_cond = false;
  g_stats.spurious_wakes++;
}

void pick_and_switch() {
  Th *self = t_self;
  std::vector<Th *> run;
  runnable_list(run, nullptr);
  if (run.empty()) fatal(EXIT_DEADLOCK, "DEADLOCK: unfinished threads and no runnable thread");
  Th *next = choose(run, self, false);
  switch_to(next);
}

void yield_here() {
  Th *self = t_self;
  g_stats.steps++;
  if (self->in_call) {
    self->call_steps++;
    if (g_cfg.step_limit && self->call_steps > g_cfg.step_limit)
      fatal(EXIT_STEPLIMIT, "STEPLIMIT: a call exceeded its scheduler step bound");
  }
  // global form of the same bound: calls are in flight, yet none has begun or returned for step_limit steps -- the
  // steps were all taken by other threads (a background thread that reschedules itself for ever starves every caller
  // without any single caller accumulating steps of its own)
  if (g_cfg.step_limit && g_inflight > 0 && g_stats.steps - g_last_progress > g_cfg.step_limit)
    fatal(EXIT_STEPLIMIT, "STEPLIMIT: no API call began or returned within the scheduler step bound while calls are in flight");
  maybe_spurious();
  pick_and_switch();
}

void block_on(ThState st, const void *obj) {
  Th *self = t_self;
  self->state = st;
  self->obj = obj;
  pick_and_switch();
  // resumed: someone made us RUNNABLE and we were chosen
  self->obj = nullptr;
}

inline bool managed() { return g_active && t_self != nullptr; }

// Unmanaged mode (real concurrency, C10): seeded delay injection at the wrapped sites.
thread_local uint64_t t_delay_state = 0;
inline void unmanaged_delay() {
  uint64_t seed = g_delay_seed.load(std::memory_order_relaxed);
  if (!seed) return;
  if (!t_delay_state) t_delay_state = seed * 0x9E3779B97F4A7C15ULL + (uint64_t)(uintptr_t)&t_delay_state;
  t_delay_state ^= t_delay_state << 13;
  t_delay_state ^= t_delay_state >> 7;
  t_delay_state ^= t_delay_state << 17;
  unsigned r = (unsigned)(t_delay_state >> 33) & 63;
  if (r == 0) sched_yield();
  else if (r < 4) { for (volatile int i = 0; i < (int)(r * 400); i++) {} }
}

void model_lock(const void *m) {
  Th *self = t_self;
  for (;;) {
    MutexSt &ms = g_mutexes[m];
    if (ms.owner == nullptr) {
      ms.owner = self;
      return;
    }
    if (ms.owner == self) fatal(EXIT_DEADLOCK, "DEADLOCK: relock of a mutex by its owner");
    g_stats.mutex_blocks++;
    block_on(BLK_MUTEX, m);
  }
}

void model_unlock(const void *m) {
  Th *self = t_self;
  MutexSt &ms = g_mutexes[m];
  if (ms.owner != self) fatal(EXIT_HARNESS, "HARNESS: unlock of a mutex not owned by the caller");
  ms.owner = nullptr;
  for (Th *t : g_threads)
    if (t->state == BLK_MUTEX && t->obj == m) t->state = RUNNABLE;
}

void *trampoline(void *p) {
  Th *th = (Th *)p;
  t_self = th;
  while (sem_wait(&th->sem) != 0 && errno == EINTR) {}
  void *(*start)(void *) = th->start;
  void *arg = th->arg;
  void *ret = start(arg);
  // finish under the baton
  th->state = FINISHED;
  for (Th *t : g_threads)
    if (t->state == BLK_JOIN && t->obj == th) t->state = RUNNABLE;
  t_self = th;
  std::vector<Th *> run;
  runnable_list(run, nullptr);
  if (run.empty()) fatal(EXIT_DEADLOCK, "DEADLOCK: thread finished and nothing is runnable");
  Th *next = choose(run, th, false);
  t_self = nullptr;
  g_stats.switches++;
  g_cur = next;
  sem_post(&next->sem);
  return ret;
}

}  // namespace

void sched_begin(const SchedConfig &cfg) {
  if (g_active) fatal(EXIT_HARNESS, "HARNESS: sched_begin while active");
  g_cfg = cfg;
  g_stats = SchedStats();
  g_choices.clear();
  g_arity.clear();
  g_curidx.clear();
  g_preemptions = 0;
  g_mutexes.clear();
  g_conds.clear();
  g_inflight = 0;
  g_last_progress = 0;
  g_rng = cfg.seed * 0x9E3779B97F4A7C15ULL + 0x1234567ULL;
  if (g_rng == 0) g_rng = 1;
  for (int i = 0; i < 4; i++) rnd();
  g_pct_points.clear();
  g_pct_low = -1;
  if (cfg.strategy == ST_PCT)
    for (int i = 0; i < cfg.pct_depth; i++) g_pct_points.push_back(rnd() % (cfg.pct_len ? cfg.pct_len : 1));
  if (cfg.strategy == ST_OFF) return;
  for (Th *t : g_threads) { sem_destroy(&t->sem); delete t; }
  g_threads.clear();
  Th *t0 = new Th();
  t0->id = 0;
  t0->client = true;
  sem_init(&t0->sem, 0, 0);
  t0->prio = (int64_t)(rnd() % 1000) + 1000;
  g_threads.push_back(t0);
  t_self = t0;
  g_cur = t0;
  g_active = true;
}

int sched_end() {
  if (!g_active) return 0;
  Th *self = t_self;
  std::vector<Th *> run;
  for (;;) {
    runnable_list(run, self);
    if (run.empty()) break;
    Th *next = choose(run, self, true);
    if (next == self) continue;
    switch_to(next);
  }
  int blocked = 0;
  for (Th *t : g_threads)
    if (t != self && t->state != FINISHED) blocked++;
  g_active = false;
  t_self = nullptr;
  return blocked;
}

bool sched_active() { return g_active; }

// In a forked child only the calling thread exists: leave managed mode for good.
void sched_detach_child() {
  g_active = false;
  t_self = nullptr;
}

void sched_quiesce() {
  if (!managed()) return;
  Th *self = t_self;
  std::vector<Th *> run;
  uint64_t spins = 0;
  for (;;) {
    runnable_list(run, self);
    if (run.empty()) break;
    // the other threads must come to rest: background work that reschedules itself for ever is a stuck system
    if (g_cfg.step_limit && ++spins > g_cfg.step_limit)
      fatal(EXIT_STEPLIMIT, "STEPLIMIT: background work did not settle within the scheduler step bound");
    g_stats.steps++;
    Th *next = choose(run, self, true);
    switch_to(next);
  }
}

void sched_yield_point(const char *) {
  if (!managed()) { unmanaged_delay(); return; }
  yield_here();
}

uint64_t sched_clock() { return g_stats.steps; }

void sched_call_begin() {
  if (!managed()) return;
  t_self->in_call = true;
  t_self->call_steps = 0;
  g_last_progress = g_stats.steps;
  g_inflight++;
  if (g_inflight > g_stats.max_inflight) g_stats.max_inflight = g_inflight;
}

void sched_call_end() {
  if (!managed()) return;
  t_self->in_call = false;
  g_last_progress = g_stats.steps;
  g_inflight--;
}

int sched_inflight_clients() { return g_inflight; }

struct SpawnArg { void (*fn)(void *); void *arg; };
static void *spawn_tramp(void *p) {
  SpawnArg a = *(SpawnArg *)p;
  delete (SpawnArg *)p;
  a.fn(a.arg);
  return nullptr;
}

extern "C" int __wrap_pthread_create(pthread_t *, const pthread_attr_t *, void *(*)(void *), void *);

int sched_spawn(void (*fn)(void *), void *arg) {
  pthread_t th;
  SpawnArg *a = new SpawnArg{fn, arg};
  g_last_created = nullptr;
  if (__wrap_pthread_create(&th, nullptr, spawn_tramp, a) != 0) fatal(EXIT_HARNESS, "HARNESS: spawn failed");
  if (managed() && g_last_created) {
    g_last_created->client = true;
    return g_last_created->id;
  }
  return -1;
}

void sched_join(int tid) {
  if (!managed()) return;
  Th *target = nullptr;
  for (Th *t : g_threads)
    if (t->id == tid) target = t;
  if (!target) return;
  yield_here();
  while (target->state != FINISHED) block_on(BLK_JOIN, target);
  if (target->has_real) {
    __real_pthread_join(target->real, nullptr);
    target->has_real = false;
  }
}

int sched_self() { return (managed()) ? t_self->id : -1; }

const SchedStats &sched_stats() { return g_stats; }
const std::vector<uint32_t> &sched_choices() { return g_choices; }
const std::vector<uint32_t> &sched_choice_arity() { return g_arity; }
const std::vector<int32_t> &sched_choice_curidx() { return g_curidx; }
uint64_t sched_preemptions() { return g_preemptions; }
void sched_set_fatal_hook(void (*hook)(const char *)) { g_fatal_hook = hook; }

std::string sched_dump() {
  std::string s;
  char buf[256];
  for (Th *t : g_threads) {
    snprintf(buf, sizeof buf, "  thread %d %s %s obj=%p%s\n", t->id, t->client ? "client" : "background",
             state_name(t->state), t->obj, t == g_cur ? " (current)" : "");
    s += buf;
  }
  for (auto &kv : g_mutexes)
    if (kv.second.owner) {
      snprintf(buf, sizeof buf, "  mutex %p owner=%d\n", kv.first, kv.second.owner->id);
      s += buf;
    }
  for (auto &kv : g_conds)
    if (!kv.second.empty()) {
      snprintf(buf, sizeof buf, "  cond %p waiters=%zu\n", kv.first, kv.second.size());
      s += buf;
    }
  return s;
}

}  // namespace vf

// ---------------------------------------------------------------------------
// pthread wrappers
// ---------------------------------------------------------------------------
using namespace vf;

extern "C" {

int __wrap_pthread_mutex_init(pthread_mutex_t *m, const pthread_mutexattr_t *a) {
  if (managed()) g_mutexes[m] = MutexSt();
  return __real_pthread_mutex_init(m, a);
}

int __wrap_pthread_mutex_destroy(pthread_mutex_t *m) {
  if (managed()) {
    auto it = g_mutexes.find(m);
    if (it != g_mutexes.end()) {
      if (it->second.owner) fatal(EXIT_HARNESS, "HARNESS: destroy of a locked mutex");
      g_mutexes.erase(it);
    }
  }
  return __real_pthread_mutex_destroy(m);
}

int __wrap_pthread_mutex_lock(pthread_mutex_t *m) {
  if (!managed()) { unmanaged_delay(); return __real_pthread_mutex_lock(m); }
  yield_here();
  model_lock(m);
  return 0;
}

int __wrap_pthread_mutex_unlock(pthread_mutex_t *m) {
  if (!managed()) { int rc0 = __real_pthread_mutex_unlock(m); unmanaged_delay(); return rc0; }
  model_unlock(m);
  yield_here();
  return 0;
}

int __wrap_pthread_cond_init(pthread_cond_t *c, const pthread_condattr_t *a) {
  if (managed()) g_conds[c].clear();
  return __real_pthread_cond_init(c, a);
}

int __wrap_pthread_cond_destroy(pthread_cond_t *c) {
  if (managed()) {
    auto it = g_conds.find(c);
    if (it != g_conds.end()) {
      if (!it->second.empty()) fatal(EXIT_HARNESS, "HARNESS: destroy of a condition variable with waiters");
      g_conds.erase(it);
    }
  }
  return __real_pthread_cond_destroy(c);
}

int __wrap_pthread_cond_wait(pthread_cond_t *c, pthread_mutex_t *m) {
  if (!managed()) return __real_pthread_cond_wait(c, m);
  Th *self = t_self;
  yield_here();
  model_unlock(m);
  g_conds[c].push_back(self);
  self->in_cond = true;
  g_stats.cond_waits++;
  block_on(BLK_COND, c);
  model_lock(m);
  return 0;
}

static void wake_one(std::deque<Th *> &dq, size_t i) {
  Th *t = dq[i];
  dq.erase(dq.begin() + i);
  t->state = RUNNABLE;
  t->in_cond = false;
  g_stats.cond_wakes++;
}

int __wrap_pthread_cond_signal(pthread_cond_t *c) {
  if (!managed()) { unmanaged_delay(); return __real_pthread_cond_signal(c); }
  yield_here();
  auto &dq = g_conds[c];
  if (!dq.empty()) wake_one(dq, g_cfg.random_signal ? (size_t)(rnd() % dq.size()) : 0);
  return 0;
}

int __wrap_pthread_cond_broadcast(pthread_cond_t *c) {
  if (!managed()) return __real_pthread_cond_broadcast(c);
  yield_here();
  auto &dq = g_conds[c];
  while (!dq.empty()) wake_one(dq, 0);
  return 0;
}

int __wrap_pthread_create(pthread_t *thread, const pthread_attr_t *attr, void *(*start)(void *), void *arg) {
  if (!managed()) return __real_pthread_create(thread, attr, start, arg);
  yield_here();
  Th *th = new Th();
  th->id = (int)g_threads.size();
  th->start = start;
  th->arg = arg;
  th->client = false;
  sem_init(&th->sem, 0, 0);
  th->prio = (int64_t)(rnd() % 1000) + 1000;
  g_threads.push_back(th);
  g_stats.threads_created++;
  int rc = __real_pthread_create(&th->real, attr, trampoline, th);
  if (rc != 0) fatal(EXIT_HARNESS, "HARNESS: pthread_create failed");
  th->has_real = true;
  *thread = th->real;
  g_last_created = th;
  return 0;
}

int __wrap_pthread_detach(pthread_t t) {
  if (managed())
    for (Th *x : g_threads)
      if (x->has_real && pthread_equal(x->real, t)) x->has_real = false;
  return __real_pthread_detach(t);
}

int __wrap_pthread_join(pthread_t t, void **ret) {
  if (managed()) {
    for (Th *x : g_threads)
      if (x->has_real && pthread_equal(x->real, t)) {
        yield_here();
        while (x->state != FINISHED) block_on(BLK_JOIN, x);
        x->has_real = false;
        break;
      }
  }
  return __real_pthread_join(t, ret);
}

}  // extern "C"
