// File-system model over a recorded I/O trace, and crash images.
//
// Crash model (exactly the one stated in property C02): at trace index t each
// file keeps a prefix of its written bytes at least as long as at its last
// fsync; directory operations persist in issue order, at least up to the last
// fsync of any file or directory.  O_TRUNC of an existing name is a directory
// operation that replaces the inode by a fresh empty one.
#ifndef VF_FSMODEL_H
#define VF_FSMODEL_H

#include <fcntl.h>

#include <map>
#include <string>
#include <vector>

#include "case.h"
#include "util.h"
#include "vfio.h"

namespace vf {

struct FsInode {
  std::string data;      // everything ever written (append-only)
  size_t written = 0;    // length at the current trace position
  size_t synced = 0;     // durable length at the current trace position
  size_t last_write_start = 0;  // offset where the most recent write began
  std::string first_name;
};

struct FsDirOp {
  enum Type { CREATE, TRUNC, RENAME, UNLINK, LINK } type;
  std::string a, b;
  int inode = -1;        // CREATE/TRUNC: the new inode
  size_t ev = 0;         // trace index
};

typedef std::map<std::string, int> FsNames;  // name -> inode

struct FsImage {
  FsNames names;
  std::map<int, size_t> len;   // inode -> kept length
  std::string kind;            // minimal / maximal / dir-ahead / data-ahead / torn / sampled
  uint64_t hash = 0;
};

class FsModel {
 public:
  std::vector<FsInode> inodes;
  std::vector<FsDirOp> dirops;
  FsNames initial;          // durable namespace before the trace
  FsNames current;          // namespace with every directory operation so far applied
  size_t durable_dirops = 0;  // D_t
  std::map<int, int> fd_inode;
  int last_written_inode = -1;

  // Start from an existing durable image (nested crashes) or from nothing.
  void init_from_dir(const std::string &dir) {
    for (auto &n : list_dir(dir)) {
      if (n == "LOG" || n == "LOG.old" || n == "LOCK") continue;
      std::string bytes;
      if (!read_file(dir + "/" + n, bytes)) continue;
      FsInode in;
      in.data = bytes;
      in.written = in.synced = bytes.size();
      in.first_name = n;
      inodes.push_back(in);
      initial[n] = (int)inodes.size() - 1;
    }
    current = initial;
  }

  static void apply_dirop(FsNames &ns, const FsDirOp &d) {
    switch (d.type) {
      case FsDirOp::CREATE: case FsDirOp::TRUNC: ns[d.a] = d.inode; break;
      case FsDirOp::RENAME: {
        auto it = ns.find(d.a);
        if (it != ns.end()) { int ino = it->second; ns.erase(it); ns[d.b] = ino; }
        break;
      }
      case FsDirOp::UNLINK: ns.erase(d.a); break;
      case FsDirOp::LINK: {
        auto it = ns.find(d.a);
        if (it != ns.end()) ns[d.b] = it->second;
        break;
      }
    }
  }

  void add_dirop(FsDirOp d, size_t ev) {
    d.ev = ev;
    apply_dirop(current, d);
    dirops.push_back(d);
  }

  // Feed trace event number ev. Returns true if the event changed the model state.
  bool apply(const IoEvent &e, size_t ev) {
    if (e.kind == IO_MARK) return false;
    if (e.result < 0) return false;  // failed calls change nothing
    if (e.path.find('/') != std::string::npos) return false;  // sub-directories are not modelled
    switch (e.kind) {
      case IO_OPEN: {
        if (e.path.empty()) { fd_inode[e.fd] = -2; return false; }  // the directory itself
        bool wr = (e.flags & O_ACCMODE) != O_RDONLY;
        auto it = current.find(e.path);
        if (it == current.end()) {
          if (!(e.flags & O_CREAT)) return false;
          FsInode in;
          in.first_name = e.path;
          inodes.push_back(in);
          FsDirOp d; d.type = FsDirOp::CREATE; d.a = e.path; d.inode = (int)inodes.size() - 1;
          add_dirop(d, ev);
          fd_inode[e.fd] = d.inode;
          return true;
        }
        if (wr && (e.flags & O_TRUNC)) {
          FsInode in;
          in.first_name = e.path;
          inodes.push_back(in);
          FsDirOp d; d.type = FsDirOp::TRUNC; d.a = e.path; d.inode = (int)inodes.size() - 1;
          add_dirop(d, ev);
          fd_inode[e.fd] = d.inode;
          return true;
        }
        fd_inode[e.fd] = it->second;
        return false;
      }
      case IO_CLOSE: fd_inode.erase(e.fd); return false;
      case IO_WRITE: {
        auto it = fd_inode.find(e.fd);
        if (it == fd_inode.end() || it->second < 0) return false;
        FsInode &in = inodes[it->second];
        in.last_write_start = in.written;
        in.data.resize(in.written);
        in.data += e.data;
        in.written = in.data.size();
        last_written_inode = it->second;
        return !e.data.empty();
      }
      case IO_FSYNC: case IO_FDATASYNC: {
        auto it = fd_inode.find(e.fd);
        if (it != fd_inode.end() && it->second >= 0) inodes[it->second].synced = inodes[it->second].written;
        durable_dirops = dirops.size();
        return true;
      }
      case IO_RENAME: { FsDirOp d; d.type = FsDirOp::RENAME; d.a = e.path; d.b = e.path2; add_dirop(d, ev); return true; }
      case IO_UNLINK: { FsDirOp d; d.type = FsDirOp::UNLINK; d.a = e.path; add_dirop(d, ev); return true; }
      case IO_LINK: { FsDirOp d; d.type = FsDirOp::LINK; d.a = e.path; d.b = e.path2; add_dirop(d, ev); return true; }
      default: return false;
    }
  }

  FsNames names_at(size_t k) const {
    FsNames ns = initial;
    for (size_t i = 0; i < k && i < dirops.size(); i++) apply_dirop(ns, dirops[i]);
    return ns;
  }

  // kinds: 0 minimal, 1 maximal, 2 dir-ahead, 3 data-ahead
  FsImage canonical(int kind) const {
    FsImage im;
    bool dir_all = (kind == 1 || kind == 2);
    bool data_all = (kind == 1 || kind == 3);
    im.names = dir_all ? current : names_at(durable_dirops);
    for (auto &p : im.names) im.len[p.second] = data_all ? inodes[p.second].written : inodes[p.second].synced;
    static const char *kn[] = {"minimal", "maximal", "dir-ahead", "data-ahead"};
    im.kind = kn[kind];
    finish(im);
    return im;
  }

  // maximal image with the last written file cut at `cut` bytes into its last write
  bool torn(size_t cut, FsImage *out) const {
    if (last_written_inode < 0) return false;
    const FsInode &in = inodes[last_written_inode];
    size_t wl = in.written - in.last_write_start;
    if (wl < 2 || cut == 0 || cut >= wl) return false;
    if (in.last_write_start + cut < in.synced) return false;
    FsImage im = canonical(1);
    if (!im.len.count(last_written_inode)) return false;
    im.len[last_written_inode] = in.last_write_start + cut;
    im.kind = "torn";
    finish(im);
    *out = im;
    return true;
  }

  // sampled image: k in [D_t, N_t], each length in [synced, written], chosen by a splitmix stream
  FsImage sampled(uint64_t &rng) const {
    FsImage im;
    size_t span = dirops.size() - durable_dirops;
    size_t k = durable_dirops + (span ? (size_t)(splitmix(rng) % (span + 1)) : 0);
    im.names = names_at(k);
    for (auto &p : im.names) {
      const FsInode &in = inodes[p.second];
      size_t s = in.written - in.synced;
      uint64_t r = splitmix(rng);
      size_t l = in.synced;
      if (s) {
        switch (r % 4) {
          case 0: l = in.synced; break;
          case 1: l = in.written; break;
          default: l = in.synced + (size_t)((r >> 8) % (s + 1));
        }
      }
      im.len[p.second] = l;
    }
    im.kind = "sampled";
    finish(im);
    return im;
  }

  // When the crash point admits few images (choice of persisted directory-operation count x {synced, written} length per
  // file with unsynced bytes), enumerate them all.  Returns false when the product exceeds `limit`.
  bool enumerate_all(size_t limit, std::vector<FsImage> *out) const {
    size_t nd = dirops.size() - durable_dirops + 1;
    if (nd > limit) return false;
    for (size_t k = durable_dirops; k <= dirops.size(); k++) {
      FsNames ns = names_at(k);
      std::vector<int> open_files;
      for (auto &p : ns) if (inodes[p.second].written > inodes[p.second].synced) open_files.push_back(p.second);
      std::sort(open_files.begin(), open_files.end());
      open_files.erase(std::unique(open_files.begin(), open_files.end()), open_files.end());
      if (open_files.size() > 6) return false;
      size_t combos = (size_t)1 << open_files.size();
      if (out->size() + combos > limit) return false;
      for (size_t mask = 0; mask < combos; mask++) {
        FsImage im;
        im.names = ns;
        for (auto &p : ns) im.len[p.second] = inodes[p.second].synced;
        for (size_t b = 0; b < open_files.size(); b++) if (mask & ((size_t)1 << b)) im.len[open_files[b]] = inodes[open_files[b]].written;
        im.kind = "enumerated";
        finish(im);
        out->push_back(im);
      }
    }
    return true;
  }

  void finish(FsImage &im) const {
    uint64_t h = 1469598103934665603ULL;
    for (auto &p : im.names) {
      h = fnv1a(p.first, h);
      h = fnv1a(sfmt(":%d:%zu|", p.second, im.len[p.second]), h);
    }
    im.hash = h;
  }

  bool materialise(const FsImage &im, const std::string &dir) const {
    mkdir(dir.c_str(), 0755);
    for (auto &p : im.names) {
      const FsInode &in = inodes[p.second];
      auto it = im.len.find(p.second);
      size_t l = it == im.len.end() ? in.written : it->second;
      if (l > in.data.size()) l = in.data.size();
      if (!write_file(dir + "/" + p.first, in.data.substr(0, l))) return false;
    }
    return true;
  }

  // self-check of the recorder: the model replayed to the end must equal the real directory
  bool matches_dir(const std::string &dir, std::string *why) const {
    std::vector<std::string> names = list_dir(dir);
    std::set<std::string> real;
    for (auto &n : names) {
      if (n == "LOG" || n == "LOG.old" || n == "LOCK") continue;
      real.insert(n);
    }
    for (auto &p : current) {
      if (p.first == "LOCK") continue;
      if (!real.count(p.first)) { *why = "model has " + p.first + " but the directory does not"; return false; }
      std::string bytes;
      read_file(dir + "/" + p.first, bytes);
      const FsInode &in = inodes[p.second];
      if (bytes != in.data.substr(0, in.written)) { *why = "contents of " + p.first + sfmt(" differ (model %zu bytes, real %zu)", in.written, bytes.size()); return false; }
      real.erase(p.first);
    }
    if (!real.empty()) { *why = "directory has " + *real.begin() + " but the model does not"; return false; }
    return true;
  }
};

}  // namespace vf

#endif
