// libFuzzer targets for C18 (decoders are total and memory-safe on arbitrary bytes).
// One binary, target selected by the environment variable VF_FUZZ_TARGET:
//   block filter snappy edit batch log table filename dbdir
// Oracle: ASan + UBSan (-fno-sanitize-recover), no abort, return within libFuzzer's
// timeout, and where a cheap semantic oracle exists it is inside the target
// (differential Snappy decode against the reference; a record returned by the log
// reader must have a valid checksum in the input; an imported edit re-exports).
#include <fuzzer/FuzzedDataProvider.h>

#include <dirent.h>
#include <stdio.h>
#include <stdlib.h>
#include <string.h>
#include <sys/stat.h>
#include <unistd.h>

#include <set>
#include <string>
#include <vector>

extern "C" {
#include "util/buffer.h"
#include "util/slice.h"
#include "util/coding.h"
#include "util/crc32c.h"
#include "util/snappy.h"
#include "util/comparator.h"
#include "util/bloom.h"
#include "util/cache.h"
#include "util/options.h"
#include "util/env.h"
#include "util/status.h"
#include "util/internal.h"
#include "log_writer.h"
#include "log_reader.h"
#include "version_edit.h"
#include "write_batch.h"
#include "memtable.h"
#include "dbformat.h"
#include "filename.h"
#include "dumpfile.h"
#include "db_impl.h"
#include "table/block.h"
#include "table/block_builder.h"
#include "table/filter_block.h"
#include "table/format.h"
#include "table/table.h"
#include "table/table_builder.h"
#include "table/iterator.h"
}

#include "../ref/ref.h"
#include "../case.h"
#include "../util.h"

using namespace vf;

static std::string g_target;
static std::string g_scratch;
static unsigned long g_execs = 0, g_passed_gate = 0;
static std::set<uint64_t> g_gate_fps;
static std::string g_stats_file;

// Known finding `manifest-contents-asserts` (open): with assertions enabled, a correctly framed MANIFEST or log record with
// inconsistent contents trips assert() in recovery.  Assertion-build campaigns exclude that path by construction (counted) so that the
// search goes on; a separate short campaign keeps exhibiting it.
static bool g_no_framed_manifest = false;
static unsigned long g_excluded_known = 0;
static void flush_stats() {
  if (g_stats_file.empty()) return;
  FILE *f = fopen(g_stats_file.c_str(), "w");
  if (!f) return;
  fprintf(f, "{\"execs\": %lu, \"passed_gate\": %lu, \"distinct_passed_gate\": %zu, \"excluded_known\": %lu}\n", g_execs, g_passed_gate, g_gate_fps.size(), g_excluded_known);
  fclose(f);
}

static void gate(const uint8_t *data, size_t size) {
  g_passed_gate++;
  if (g_gate_fps.size() < 2000000) g_gate_fps.insert(fnv1a(std::string((const char *)data, size)));
}

static ldb_slice_t sl(const uint8_t *p, size_t n) { ldb_slice_t s; s.data = (uint8_t *)p; s.size = n; s.alloc = 0; return s; }
static ldb_slice_t sl(const std::string &s) { return sl((const uint8_t *)s.data(), s.size()); }

static void semantic_fail(const char *what) {
  fprintf(stderr, "SEMANTIC ORACLE FAILED (C18 target %s): %s\n", g_target.c_str(), what);
  flush_stats();
  __builtin_trap();
}

// ------------------------------------------------------------------ block ---
// Input layout for block / filter / table: payload bytes followed by a 16-byte control block. Valid files
// therefore become seeds by appending 16 bytes, and mutations of the payload keep their meaning.
struct Ctl {
  uint64_t s;
  const uint8_t *pay;
  size_t n;
  uint64_t next() { s ^= s << 13; s ^= s >> 7; s ^= s << 17; return s; }
  std::string key() {
    uint64_t r = next();
    if (n && (r & 3)) { size_t off = (r >> 8) % n, len = 1 + (r >> 40) % 40; if (off + len > n) len = n - off; return std::string((const char *)pay + off, len); }
    std::string k((r >> 8) % 12, '\0');
    for (auto &c : k) c = (char)next();
    return k;
  }
};

static Ctl split_ctl(const uint8_t *data, size_t size, size_t *paylen) {
  size_t c = size < 16 ? size : 16;
  *paylen = size - c;
  Ctl ctl;
  ctl.s = 0x9E3779B97F4A7C15ULL;
  for (size_t i = 0; i < c; i++) ctl.s = (ctl.s ^ data[*paylen + i]) * 1099511628211ULL;
  if (!ctl.s) ctl.s = 1;
  ctl.pay = data;
  ctl.n = *paylen;
  return ctl;
}

static void walk_iter(ldb_iter_t *it, Ctl &ctl, int maxsteps, size_t min_key = 0) {
  for (int steps = 0; steps < maxsteps; steps++) {
    switch (ctl.next() % 6) {
      case 0: ldb_iter_first(it); break;
      case 1: ldb_iter_last(it); break;
      case 2: { std::string k = ctl.key(); if (k.size() < min_key) k.append(min_key - k.size(), '\0'); ldb_slice_t ks = sl(k); ldb_iter_seek(it, &ks); break; }
      case 3: if (ldb_iter_valid(it)) ldb_iter_next(it); break;
      case 4: if (ldb_iter_valid(it)) ldb_iter_prev(it); break;
      default: if (ldb_iter_valid(it)) { ldb_slice_t k = ldb_iter_key(it), v = ldb_iter_value(it); if (k.size) { volatile uint8_t c = ((uint8_t *)k.data)[k.size - 1]; (void)c; } if (v.size) { volatile uint8_t c = ((uint8_t *)v.data)[v.size - 1]; (void)c; } }
    }
    (void)ldb_iter_status(it);
  }
  int guard = 0;
  for (ldb_iter_first(it); ldb_iter_valid(it) && guard < 100000; ldb_iter_next(it)) guard++;
  guard = 0;
  for (ldb_iter_last(it); ldb_iter_valid(it) && guard < 100000; ldb_iter_prev(it)) guard++;
}

static void target_block(const uint8_t *data, size_t size) {
  size_t n;
  Ctl ctl = split_ctl(data, size, &n);
  bool internal = ctl.next() & 1;
  uint8_t *heap = (uint8_t *)malloc(n ? n : 1);   // exact-size heap buffer: overreads are visible to ASan
  if (n) memcpy(heap, data, n);
  ldb_contents_t c;
  c.data = sl(heap, n);
  c.cachable = 0;
  c.heap_allocated = 0;
  ldb_block_t block;
  ldb_block_init(&block, &c);
  ldb_comparator_t icmp;
  ldb_ikc_init(&icmp, ldb_bytewise_comparator);
  ldb_iter_t *it = ldb_blockiter_create(&block, internal ? &icmp : ldb_bytewise_comparator);
  if (ldb_iter_status(it) == LDB_OK && n >= 4) gate(data, size);
  walk_iter(it, ctl, 48, internal ? 8 : 0);
  ldb_iter_destroy(it);
  ldb_block_clear(&block);
  free(heap);
}

// ----------------------------------------------------------------- filter ---
static void target_filter(const uint8_t *data, size_t size) {
  size_t n;
  Ctl ctl = split_ctl(data, size, &n);
  uint8_t *heap = (uint8_t *)malloc(n ? n : 1);
  if (n) memcpy(heap, data, n);
  ldb_slice_t contents = sl(heap, n);
  ldb_filter_t fr;
  ldb_filter_init(&fr, ldb_bloom_default, &contents);
  if (n >= 5) gate(data, size);
  for (int i = 0; i < 16; i++) {
    uint64_t off = ctl.next() >> (ctl.next() % 64);
    std::string k = ctl.key();
    ldb_slice_t ks = sl(k);
    (void)ldb_filter_matches(&fr, off, &ks);
  }
  free(heap);
}

// ----------------------------------------------------------------- snappy ---
static void target_snappy(const uint8_t *data, size_t size) {
  size_t n = 0;
  uint8_t *heap = (uint8_t *)malloc(size ? size : 1);
  if (size) memcpy(heap, data, size);
  if (snappy_decode_size(&n, heap, size) && n <= (8u << 20)) {
    gate(data, size);
    uint8_t *out = (uint8_t *)malloc(n ? n : 1);
    int ok = snappy_decode(out, heap, size);
    std::string r;
    bool rok = ref::snappy_uncompress(heap, size, &r);
    if (ok && (!rok || r.size() != n || (n && memcmp(r.data(), out, n) != 0))) semantic_fail("snappy_decode accepts a stream that the reference decoder rejects or decodes differently");
    free(out);
  }
  free(heap);
}

// ------------------------------------------------------------------- edit ---
static void target_edit(const uint8_t *data, size_t size) {
  uint8_t *heap = (uint8_t *)malloc(size ? size : 1);
  if (size) memcpy(heap, data, size);
  ldb_edit_t e;
  ldb_edit_init(&e);
  ldb_slice_t src = sl(heap, size);
  if (ldb_edit_import(&e, &src)) {
    gate(data, size);
    ldb_buffer_t out;
    ldb_buffer_init(&out);
    ldb_edit_export(&out, &e);
    // what was accepted must be re-importable from its own canonical encoding
    ldb_edit_t e2;
    ldb_edit_init(&e2);
    ldb_slice_t s2 = sl(out.data, out.size);
    if (!ldb_edit_import(&e2, &s2)) semantic_fail("an accepted version edit does not re-import from its own export");
    ldb_buffer_t dbg;
    ldb_buffer_init(&dbg);
    ldb_edit_debug(&dbg, &e);
    ldb_buffer_clear(&dbg);
    ldb_edit_clear(&e2);
    ldb_buffer_clear(&out);
    // the consumer of an accepted edit is the version builder of recovery: hand it the edit inside a correctly framed
    // MANIFEST (a base record, then the edit) and open that directory
    if (g_no_framed_manifest) g_excluded_known++;
    else {
      std::string d = g_scratch + "/editdb";
      mkdir(d.c_str(), 0755);
      for (auto &n : list_dir(d)) unlink((d + "/" + n).c_str());
      ref::Edit base;
      base.has_comparator = true; base.comparator = "leveldb.BytewiseComparator";
      base.has_log = true; base.log = 0; base.has_next = true; base.next_file = 10; base.has_last_seq = true; base.last_seq = 100;
      std::string mf;
      ref::log_append(mf, ref::edit_encode(base));
      ref::log_append(mf, std::string((const char *)data, size));
      write_file(d + "/MANIFEST-000002", mf);
      write_file(d + "/CURRENT", "MANIFEST-000002\n");
      ldb_dbopt_t o = *ldb_dbopt_default;
      o.create_if_missing = 0;
      o.paranoid_checks = (size & 1);
      ldb_t *db = NULL;
      if (ldb_open(d.c_str(), &o, &db) == LDB_OK) {
        char *p = NULL;
        if (ldb_property(db, "leveldb.sstables", &p) && p) ldb_free(p);
        ldb_close(db);
      }
    }
  }
  ldb_edit_clear(&e);
  free(heap);
}

// ------------------------------------------------------------------ batch ---
struct Counter { int puts = 0, dels = 0; };
static void h_put(ldb_handler_t *h, const ldb_slice_t *k, const ldb_slice_t *v) { ((Counter *)h->state)->puts++; volatile size_t s = k->size + v->size; (void)s; }
static void h_del(ldb_handler_t *h, const ldb_slice_t *k) { ((Counter *)h->state)->dels++; volatile size_t s = k->size; (void)s; }

static void target_batch(const uint8_t *data, size_t size) {
  if (size < 12) return;  // the callers (recovery) reject records shorter than the 12-byte header before this point
  uint8_t *heap = (uint8_t *)malloc(size);
  memcpy(heap, data, size);
  ldb_batch_t b;
  ldb_batch_init(&b);
  ldb_slice_t c = sl(heap, size);
  ldb_batch_set_contents(&b, &c);
  Counter cnt;
  ldb_handler_t h;
  memset(&h, 0, sizeof h);
  h.state = &cnt;
  h.put = h_put;
  h.del = h_del;
  int rc = ldb_batch_iterate(&b, &h);
  if (rc == LDB_OK) gate(data, size);
  ldb_comparator_t icmp;
  ldb_ikc_init(&icmp, ldb_bytewise_comparator);
  ldb_memtable_t *mem = ldb_memtable_create(&icmp);
  ldb_memtable_ref(mem);
  int rc2 = ldb_batch_insert_into(&b, mem);
  if ((rc == LDB_OK) != (rc2 == LDB_OK)) semantic_fail("ldb_batch_iterate and ldb_batch_insert_into disagree on the validity of a batch");
  ldb_memtable_unref(mem);
  ldb_batch_clear(&b);
  free(heap);
}

// -------------------------------------------------------------------- log ---
struct Rep { size_t bytes = 0; int calls = 0; };
static void on_corr(ldb_reporter_t *r, size_t bytes, int) { Rep *p = (Rep *)r->dst; p->bytes += bytes; p->calls++; }

static void target_log(const uint8_t *data, size_t size) {
  FuzzedDataProvider fdp(data, size);
  uint64_t initial = fdp.ConsumeBool() ? fdp.ConsumeIntegralInRange<uint64_t>(0, 70000) : 0;
  int checksum = fdp.ConsumeBool();
  std::vector<uint8_t> bytes = fdp.ConsumeRemainingBytes<uint8_t>();
  uint8_t *heap = (uint8_t *)malloc(bytes.size() ? bytes.size() : 1);
  if (!bytes.empty()) memcpy(heap, bytes.data(), bytes.size());
  ldb_slice_t src = sl(heap, bytes.size());
  Rep rp;
  ldb_reporter_t rep;
  memset(&rep, 0, sizeof rep);
  rep.dst = (FILE *)&rp;
  rep.corruption = on_corr;
  ldb_reader_t lr;
  ldb_reader_init(&lr, NULL, &rep, checksum, initial);
  lr.src = &src;
  ldb_slice_t rec;
  ldb_buffer_t scratch;
  ldb_buffer_init(&scratch);
  int n = 0;
  size_t total = 0;
  while (ldb_reader_read_record(&lr, &rec, &scratch)) {
    n++;
    total += rec.size;
    if (rec.size) { volatile uint8_t c = ((uint8_t *)rec.data)[rec.size - 1]; (void)c; }
    if (n > 1000000) semantic_fail("log reader returns more than a million records from one input");
  }
  if (total > bytes.size()) semantic_fail("log reader returned more payload bytes than the input holds");
  if (n > 0) gate(data, size);
  ldb_buffer_clear(&scratch);
  ldb_reader_clear(&lr);
  free(heap);
}

// ------------------------------------------------------------------ table ---
static void g_get(void *, const ldb_slice_t *k, const ldb_slice_t *v) { volatile size_t s = k->size + v->size; (void)s; }

static void target_table(const uint8_t *data, size_t size) {
  size_t n;
  Ctl ctl = split_ctl(data, size, &n);
  int opts = (int)(ctl.next() & 15);
  std::string path = g_scratch + "/fuzz.ldb";
  write_file(path, std::string((const char *)data, n));
  ldb_dbopt_t o = *ldb_dbopt_default;
  ldb_comparator_t icmp;
  ldb_bloom_t ifp;
  if (opts & 1) { ldb_ikc_init(&icmp, ldb_bytewise_comparator); o.comparator = &icmp; } else o.comparator = ldb_bytewise_comparator;
  if (opts & 2) { if (opts & 1) { ldb_ifp_init(&ifp, ldb_bloom_default); o.filter_policy = &ifp; } else o.filter_policy = ldb_bloom_default; } else o.filter_policy = NULL;
  o.paranoid_checks = (opts & 4) ? 1 : 0;
  o.block_cache = NULL;
  ldb_rfile_t *rf = NULL;
  if (ldb_randfile_create(path.c_str(), &rf, (opts & 8) ? 1 : 0) != LDB_OK) return;
  ldb_table_t *t = NULL;
  if (ldb_table_open(&o, rf, n, &t) == LDB_OK) {
    gate(data, size);
    ldb_readopt_t ro = *ldb_readopt_default;
    ro.verify_checksums = (int)(ctl.next() & 1);
    ro.fill_cache = 0;
    ldb_iter_t *it = ldb_tableiter_create(t, &ro);
    walk_iter(it, ctl, 32, (opts & 1) ? 8 : 0);
    ldb_iter_destroy(it);
    for (int i = 0; i < 8; i++) {
      std::string k = ctl.key();
      if ((opts & 1) && k.size() < 8) k.append(8 - k.size(), '\0');
      ldb_slice_t ks = sl(k);
      (void)ldb_table_internal_get(t, &ro, &ks, NULL, g_get);
      (void)ldb_table_approximate_offset(t, &ks);
    }
    ldb_table_destroy(t);
  }
  ldb_rfile_destroy(rf);
  // the dump tool reads the same bytes through its own path
  if (ctl.next() & 1) {
    FILE *devnull = fopen("/dev/null", "w");
    if (devnull) { (void)ldb_dump_file(path.c_str(), devnull); fclose(devnull); }
  }
}

// --------------------------------------------------------------- filename ---
static void target_filename(const uint8_t *data, size_t size) {
  std::string s((const char *)data, size);
  // C strings: cut at the first NUL like every caller does
  ldb_filetype_t type;
  uint64_t num = 0;
  if (ldb_parse_filename(&type, &num, s.c_str())) gate(data, size);
  // CURRENT contents: a name with a newline
  std::string path = g_scratch + "/CURRENT";
  (void)path;
}

// ------------------------------------------------------------------ dbdir ---
static std::vector<std::pair<std::string, std::string>> g_pristine;   // (name, bytes)
static std::string g_dbdir;

static void rm_dir_contents(const std::string &d) {
  for (auto &n : list_dir(d)) {
    std::string p = d + "/" + n;
    struct stat st;
    if (stat(p.c_str(), &st) == 0 && S_ISDIR(st.st_mode)) { rm_dir_contents(p); rmdir(p.c_str()); } else unlink(p.c_str());
  }
}

static void build_pristine() {
  g_dbdir = g_scratch + "/db";
  rm_rf(g_dbdir);
  ldb_dbopt_t o = *ldb_dbopt_default;
  o.create_if_missing = 1;
  o.write_buffer_size = 64 << 10;
  o.filter_policy = ldb_bloom_default;
  ldb_t *db = NULL;
  if (ldb_open(g_dbdir.c_str(), &o, &db) != LDB_OK) abort();
  for (int round = 0; round < 3; round++) {
    for (int i = 0; i < 30; i++) {
      std::string k = sfmt("key%03d", (i * 7 + round * 3) % 40), v;
      expand_bytes(sfmt("%c%d.%d", (i & 1) ? 'r' : 'c', i + round * 100, 20 + (i * 37) % 300), v);
      ldb_slice_t ks = sl(k), vs = sl(v);
      if (i % 9 == 8) ldb_del(db, &ks, NULL); else ldb_put(db, &ks, &vs, NULL);
    }
    ldb_test_compact_memtable(db);
    if (round == 0) ldb_test_compact_range(db, 0, NULL, NULL);
  }
  for (int i = 0; i < 10; i++) { std::string k = sfmt("tail%02d", i), v = "in the log"; ldb_slice_t ks = sl(k), vs = sl(v); ldb_put(db, &ks, &vs, NULL); }
  ldb_close(db);
  for (auto &n : list_dir(g_dbdir)) {
    if (n == "LOCK" || n == "LOG" || n == "LOG.old") continue;
    std::string b;
    if (read_file(g_dbdir + "/" + n, b)) g_pristine.push_back({n, b});
  }
}

static void target_dbdir(const uint8_t *data, size_t size) {
  if (g_pristine.empty()) build_pristine();
  FuzzedDataProvider fdp(data, size);
  rm_dir_contents(g_dbdir);
  // structure-aware damage: pick files, then overwrite / set boundary values / splice fragments of other files / truncate
  std::vector<std::pair<std::string, std::string>> files = g_pristine;
  int nmut = fdp.ConsumeIntegralInRange<int>(1, 6);
  for (int m = 0; m < nmut && fdp.remaining_bytes() > 0; m++) {
    size_t fi = fdp.ConsumeIntegralInRange<size_t>(0, files.size() - 1);
    std::string &b = files[fi].second;
    switch (fdp.ConsumeIntegralInRange<int>(0, 10)) {
      case 0: { if (b.empty()) break; size_t off = fdp.ConsumeIntegralInRange<size_t>(0, b.size() - 1); std::string r = fdp.ConsumeRandomLengthString(16); for (size_t i = 0; i < r.size() && off + i < b.size(); i++) b[off + i] = r[i]; break; }
      case 1: { if (b.size() < 8) break; size_t off = fdp.ConsumeIntegralInRange<size_t>(0, b.size() - 8); static const uint64_t vals[] = {0, 1, 0x7f, 0x80, 0xff, 0x7fff, 0xffff, 0x7fffffff, 0xffffffffu, 0x100000000ull, ~0ull}; uint64_t v = vals[fdp.ConsumeIntegralInRange<int>(0, 10)]; int w = fdp.ConsumeIntegralInRange<int>(1, 8); for (int i = 0; i < w; i++) b[off + i] = (char)(v >> (8 * i)); break; }
      case 2: { if (b.empty()) break; b.resize(fdp.ConsumeIntegralInRange<size_t>(0, b.size())); break; }
      case 3: { size_t fj = fdp.ConsumeIntegralInRange<size_t>(0, g_pristine.size() - 1); const std::string &src = g_pristine[fj].second; if (src.empty()) break; size_t so = fdp.ConsumeIntegralInRange<size_t>(0, src.size() - 1), sn = fdp.ConsumeIntegralInRange<size_t>(1, std::min<size_t>(src.size() - so, 4096)); size_t off = b.empty() ? 0 : fdp.ConsumeIntegralInRange<size_t>(0, b.size()); b.insert(off, src, so, sn); break; }
      case 4: { if (b.size() < 2) break; size_t off = fdp.ConsumeIntegralInRange<size_t>(0, b.size() - 1); size_t n = fdp.ConsumeIntegralInRange<size_t>(1, std::min<size_t>(b.size() - off, 600)); for (size_t i = 0; i < n; i++) b[off + i] = 0; break; }
      case 5: { // varint-looking bytes: set the continuation bit on a run
        if (b.empty()) break; size_t off = fdp.ConsumeIntegralInRange<size_t>(0, b.size() - 1); size_t n = fdp.ConsumeIntegralInRange<size_t>(1, std::min<size_t>(b.size() - off, 12)); for (size_t i = 0; i < n; i++) b[off + i] = (char)(b[off + i] | 0x80); break; }
      case 6: { // a varint-encoded boundary value written over existing bytes (length fields, counts, handles)
        if (b.empty()) break;
        static const uint64_t vals[] = {0xffffffffull, 0x80000000ull, 0x7fffffffull, 0xfffffff0ull, 0x100000000ull, ~0ull, 1ull << 56, 0x7full, 0x80ull};
        std::string v;
        ref::put_varint64(v, vals[fdp.ConsumeIntegralInRange<int>(0, 8)]);
        size_t off = fdp.ConsumeIntegralInRange<size_t>(0, b.size() - 1);
        for (size_t i = 0; i < v.size() && off + i < b.size(); i++) b[off + i] = v[i];
        break;
      }
      case 8: case 9: {
        // log-format files (MANIFEST, *.log): damage inside a record's payload, then frame the records again with valid
        // checksums, so that the damage reaches the version-edit / write-batch decoders and their consumers instead of
        // being dropped by the log reader
        const std::string &nm = files[fi].first;
        bool logfmt = nm.compare(0, 9, "MANIFEST-") == 0 || (nm.size() > 4 && nm.compare(nm.size() - 4, 4, ".log") == 0);
        if (!logfmt) break;
        if (g_no_framed_manifest) { g_excluded_known++; break; }
        ref::LogDecode ld = ref::log_decode(b);
        if (ld.records.empty()) break;
        size_t ri = fdp.ConsumeIntegralInRange<size_t>(0, ld.records.size() - 1);
        std::string &r = ld.records[ri];
        int how = fdp.ConsumeIntegralInRange<int>(0, 4);
        if (how == 0 && !r.empty()) { size_t off = fdp.ConsumeIntegralInRange<size_t>(0, r.size() - 1); static const unsigned char small[] = {0, 1, 2, 5, 6, 7, 8, 9, 0x7f, 0x80, 0xff}; r[off] = (char)small[fdp.ConsumeIntegralInRange<int>(0, 10)]; }
        else if (how == 1 && !r.empty()) { size_t off = fdp.ConsumeIntegralInRange<size_t>(0, r.size() - 1); std::string x = fdp.ConsumeRandomLengthString(12); for (size_t i = 0; i < x.size() && off + i < r.size(); i++) r[off + i] = x[i]; }
        else if (how == 2) r.resize(fdp.ConsumeIntegralInRange<size_t>(0, r.size()));
        else if (how == 3) { static const uint64_t vals[] = {0xffffffffull, 0x80000000ull, 0x7fffffffull, 0x100000000ull, ~0ull, 7, 8, 0x7full, 0x80ull}; std::string v; ref::put_varint64(v, vals[fdp.ConsumeIntegralInRange<int>(0, 8)]); size_t off = r.empty() ? 0 : fdp.ConsumeIntegralInRange<size_t>(0, r.size() - 1); for (size_t i = 0; i < v.size() && off + i < r.size(); i++) r[off + i] = v[i]; }
        else r = fdp.ConsumeRandomLengthString(300);
        std::string nb;
        for (auto &rec : ld.records) ref::log_append(nb, rec);
        b = nb;
        break;
      }
      default: { b = fdp.ConsumeRandomLengthString(200); break; }
    }
  }
  for (auto &f : files) write_file(g_dbdir + "/" + f.first, f.second);
  gate(data, size);
  ldb_dbopt_t o = *ldb_dbopt_default;
  o.create_if_missing = fdp.ConsumeBool();
  o.paranoid_checks = fdp.ConsumeBool();
  o.reuse_logs = fdp.ConsumeBool();
  o.write_buffer_size = 64 << 10;
  o.filter_policy = fdp.ConsumeBool() ? ldb_bloom_default : NULL;
  int action = fdp.ConsumeIntegralInRange<int>(0, 3);
  if (action == 3) (void)ldb_repair(g_dbdir.c_str(), &o);
  ldb_t *db = NULL;
  if (ldb_open(g_dbdir.c_str(), &o, &db) == LDB_OK) {
    ldb_readopt_t ro = *ldb_readopt_default;
    ro.verify_checksums = fdp.ConsumeBool();
    for (int i = 0; i < 40; i += 3) { std::string k = sfmt("key%03d", i); ldb_slice_t ks = sl(k), v; if (ldb_get(db, &ks, &v, &ro) == LDB_OK) ldb_free(v.data); }
    ldb_iter_t *it = ldb_iterator(db, &ro);
    int guard = 0;
    for (ldb_iter_first(it); ldb_iter_valid(it) && guard < 100000; ldb_iter_next(it)) guard++;
    guard = 0;
    for (ldb_iter_last(it); ldb_iter_valid(it) && guard < 100000; ldb_iter_prev(it)) guard++;
    (void)ldb_iter_status(it);
    ldb_iter_destroy(it);
    if (action == 1) ldb_compact(db, NULL, NULL);
    if (action == 2) { std::string k = "newkey", v = "v"; ldb_slice_t ks = sl(k), vs = sl(v); (void)ldb_put(db, &ks, &vs, NULL); (void)ldb_test_compact_memtable(db); }
    char *p = NULL;
    if (ldb_property(db, "leveldb.sstables", &p) && p) ldb_free(p);
    ldb_close(db);
  }
  if (fdp.ConsumeBool()) {
    FILE *devnull = fopen("/dev/null", "w");
    if (devnull) { for (auto &n : list_dir(g_dbdir)) { struct stat st; std::string pth = g_dbdir + "/" + n; if (stat(pth.c_str(), &st) == 0 && S_ISREG(st.st_mode)) (void)ldb_dump_file(pth.c_str(), devnull); } fclose(devnull); }
  }
}

// ------------------------------------------------------------------ seeds ---
static void write_seeds(const std::string &dir) {
  mkdir(dir.c_str(), 0755);
  auto put = [&](const std::string &name, const std::string &bytes) { write_file(dir + "/" + name, bytes); };
  if (g_target == "log" || g_target == "batch" || g_target == "edit") {
    // valid records through lcdb's own encoders
    ldb_edit_t e;
    ldb_edit_init(&e);
    ldb_edit_set_comparator_name(&e, "leveldb.BytewiseComparator");
    ldb_edit_set_log_number(&e, 9);
    ldb_edit_set_next_file(&e, 200);
    ldb_edit_set_last_sequence(&e, 1 << 20);
    ldb_ikey_t k1, k2;
    ldb_buffer_init(&k1); ldb_buffer_init(&k2);
    std::string a = ref::ikey_make("apple", 77, 1), z = ref::ikey_make("zebra", 3, 0);
    ldb_buffer_set(&k1, (const uint8_t *)a.data(), a.size());
    ldb_buffer_set(&k2, (const uint8_t *)z.data(), z.size());
    ldb_edit_add_file(&e, 2, 17, 4096, &k1, &k2);
    ldb_edit_remove_file(&e, 1, 5);
    ldb_edit_set_compact_pointer(&e, 3, &k1);
    ldb_buffer_t out;
    ldb_buffer_init(&out);
    ldb_edit_export(&out, &e);
    std::string edit((const char *)out.data, out.size);
    ldb_buffer_clear(&out); ldb_buffer_clear(&k1); ldb_buffer_clear(&k2); ldb_edit_clear(&e);
    ldb_batch_t b;
    ldb_batch_init(&b);
    std::string kk = "key", vv = "value";
    ldb_slice_t ks = sl(kk), vs = sl(vv);
    ldb_batch_put(&b, &ks, &vs); ldb_batch_del(&b, &ks); ldb_batch_put(&b, &vs, &ks);
    ldb_slice_t bc = ldb_batch_contents(&b);
    std::string batch((const char *)bc.data, bc.size);
    ldb_batch_clear(&b);
    if (g_target == "edit") put("seed-edit", edit);
    if (g_target == "batch") put("seed-batch", batch);
    if (g_target == "log") {
      std::string log;
      ref::log_append(log, batch);
      ref::log_append(log, std::string(40000, 'x'));
      ref::log_append(log, edit);
      put("seed-log", log + std::string("\1\0", 2));
    }
  }
  if (g_target == "snappy") {
    std::string in;
    expand_bytes("c5.3000+r7.100+c9.70000", in);
    size_t zn = 0;
    snappy_encode_size(&zn, in.size());
    std::string z(zn, '\0');
    z.resize(snappy_encode((uint8_t *)&z[0], (const uint8_t *)in.data(), in.size()));
    put("seed-snappy", z);
  }
  if (g_target == "table" || g_target == "block" || g_target == "filter") {
    std::string path = g_scratch + "/seed.ldb";
    ldb_dbopt_t o = *ldb_dbopt_default;
    o.comparator = ldb_bytewise_comparator;
    o.filter_policy = ldb_bloom_default;
    o.block_size = 256;
    o.compression = LDB_NO_COMPRESSION;
    ldb_wfile_t *wf = NULL;
    if (ldb_truncfile_create(path.c_str(), &wf) == LDB_OK) {
      ldb_tablegen_t *tb = ldb_tablegen_create(&o, wf);
      for (int i = 0; i < 60; i++) { std::string k = sfmt("key%04d", i), v = sfmt("value-%d-%s", i, std::string(i % 17, 'v').c_str()); ldb_slice_t ks = sl(k), vs = sl(v); ldb_tablegen_add(tb, &ks, &vs); }
      ldb_tablegen_finish(tb);
      ldb_tablegen_destroy(tb);
      ldb_wfile_close(wf);
      ldb_wfile_destroy(wf);
      std::string bytes;
      read_file(path, bytes);
      ref::Table t;
      std::string err;
      if (g_target == "table") { put("seed-table", bytes + std::string(16, '\3')); put("seed-table2", bytes + std::string(16, '\0')); }
      if (ref::table_decode(bytes, &t, &err)) {
        if (g_target == "block" && !t.block_handles.empty()) put("seed-block", bytes.substr(t.block_handles[0].offset, t.block_handles[0].size) + std::string(16, '\2'));
        if (g_target == "filter") put("seed-filter", t.filter_block + std::string(16, '\1'));
      }
    }
  }
  if (g_target == "filename") { put("seed-a", "000123.ldb"); put("seed-b", "MANIFEST-000007"); put("seed-c", "CURRENT"); put("seed-d", "18446744073709551615.log"); }
}

extern "C" int LLVMFuzzerInitialize(int *, char ***) {
  const char *t = getenv("VF_FUZZ_TARGET");
  g_target = t ? t : "block";
  g_scratch = scratch_root();
  if (const char *s = getenv("VF_FUZZ_STATS")) g_stats_file = s;
  g_no_framed_manifest = getenv("VF_FUZZ_NO_FRAMED_MANIFEST") != nullptr;
  ldb_crc32c_init();
  if (const char *sd = getenv("VF_FUZZ_WRITE_SEEDS")) write_seeds(sd);
  atexit(flush_stats);
  atexit(scratch_cleanup);
  return 0;
}

extern "C" int LLVMFuzzerTestOneInput(const uint8_t *data, size_t size) {
  g_execs++;
  if ((g_execs & 0x3fff) == 0) flush_stats();
  if (g_target == "block") target_block(data, size);
  else if (g_target == "filter") target_filter(data, size);
  else if (g_target == "snappy") target_snappy(data, size);
  else if (g_target == "edit") target_edit(data, size);
  else if (g_target == "batch") target_batch(data, size);
  else if (g_target == "log") target_log(data, size);
  else if (g_target == "table") target_table(data, size);
  else if (g_target == "filename") target_filename(data, size);
  else if (g_target == "dbdir") target_dbdir(data, size);
  return 0;
}
