// vfsched — deterministic baton scheduler for the lcdb objects (link-time
// --wrap of the pthread primitives).  Only the holder of the baton runs; every
// wrapped pthread call and every intercepted system call is a yield point at
// which a strategy picks the next runnable thread.  All decisions derive from
// the case (strategy + seed / forced choice list), never from a clock or RNG
// outside the case.
#ifndef VF_SCHED_H
#define VF_SCHED_H

#include <stdint.h>
#include <string>
#include <vector>

namespace vf {

enum Strategy {
  ST_OFF = 0,      // scheduler inactive: real pthreads, real timing
  ST_EAGER,        // background threads run whenever they are runnable
  ST_STARVED,      // background threads run only when no client can
  ST_RANDOM,       // uniform choice, xorshift expanded from the case's seed
  ST_PCT,          // random priorities with d priority change points
  ST_RR,           // fair round robin (used to confirm livelock suspicions)
  ST_REPLAY        // forced choice list, then lowest-id runnable
};

struct SchedConfig {
  Strategy strategy = ST_EAGER;
  uint64_t seed = 1;
  int pct_depth = 2;
  uint64_t pct_len = 4000;          // expected number of choice points (PCT)
  bool spurious = false;            // inject spurious condvar wake-ups
  bool random_signal = false;       // cond_signal wakes a strategy-chosen waiter
  std::vector<uint32_t> forced;     // ST_REPLAY: index into runnable list per choice point
  uint64_t step_limit = 0;          // 0 = none; per-call bound (see sched_call_begin)
  int preempt_bound = -1;           // >=0: after forced prefix, never preempt (used by DFS)
};

struct SchedStats {
  uint64_t steps = 0;               // yield points passed
  uint64_t choice_points = 0;       // yield points with >1 runnable thread
  uint64_t switches = 0;
  uint64_t cond_waits = 0;          // threads that blocked in cond_wait
  uint64_t cond_wakes = 0;          // ... and were later woken
  uint64_t spurious_wakes = 0;
  uint64_t mutex_blocks = 0;
  uint64_t threads_created = 0;
  int max_inflight = 0;
};

// Exit codes used when the scheduler itself ends the process.
enum { EXIT_DEADLOCK = 41, EXIT_STEPLIMIT = 42, EXIT_HARNESS = 43 };

// Activate: the caller becomes client thread 0 and holds the baton.
void sched_begin(const SchedConfig &cfg);
// Run every other thread until all are finished or blocked, then deactivate.
// Returns the number of threads still blocked (0 for a clean end).
int sched_end();
bool sched_active();
// after fork(), in the child: only the calling thread exists, so scheduling is switched off
void sched_detach_child();

// Run other threads until none of them is runnable (exact quiescence for a
// single client: the background thread is parked on its condition variable).
void sched_quiesce();

// A yield point callable by the harness / the I/O layer.
void sched_yield_point(const char *what);

// Logical clock (number of yield points so far).
uint64_t sched_clock();

// Per-API-call step accounting for the livelock bound.
void sched_call_begin();
void sched_call_end();

// Spawn a client thread under the scheduler (joinable via sched_join).
int sched_spawn(void (*fn)(void *), void *arg);
void sched_join(int tid);
int sched_self();             // -1 when not registered
int sched_inflight_clients(); // clients currently between call_begin/call_end

const SchedStats &sched_stats();
// The recorded choices (index into the sorted runnable list at each choice
// point, with the list length), for replay files and DFS enumeration.
const std::vector<uint32_t> &sched_choices();
const std::vector<uint32_t> &sched_choice_arity();
// index of the running thread in the runnable list at each choice point (-1: not runnable)
const std::vector<int32_t> &sched_choice_curidx();
// preemptions in the recorded run: choice points where the current thread
// was runnable but another one was chosen
uint64_t sched_preemptions();

// Called on deadlock / step limit before exiting (lets engines dump the case).
void sched_set_fatal_hook(void (*hook)(const char *why));

// Description of all threads (for reports).
std::string sched_dump();

}  // namespace vf

#endif
