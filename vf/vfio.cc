// vfio implementation.  See io.h.
#include "vfio.h"
#include "vfsched.h"

#include <errno.h>
#include <fcntl.h>
#include <pthread.h>
#include <stdarg.h>
#include <stdio.h>
#include <string.h>
#include <sys/mman.h>
#include <sys/select.h>
#include <sys/stat.h>
#include <unistd.h>

#include <unordered_map>

extern "C" {
int __real_open(const char *, int, ...);
int __real_close(int);
ssize_t __real_read(int, void *, size_t);
ssize_t __real_pread(int, void *, size_t, off_t);
ssize_t __real_write(int, const void *, size_t);
int __real_fsync(int);
int __real_fdatasync(int);
int __real_rename(const char *, const char *);
int __real_unlink(const char *);
int __real_link(const char *, const char *);
int __real_mkdir(const char *, mode_t);
int __real_rmdir(const char *);
void *__real_mmap(void *, size_t, int, int, int, off_t);
int __real_select(int, fd_set *, fd_set *, fd_set *, struct timeval *);
int __real_pthread_mutex_lock(pthread_mutex_t *);
int __real_pthread_mutex_unlock(pthread_mutex_t *);
}

namespace vf {

namespace {

std::string g_root;           // with trailing '/'
std::string g_root_noslash;
bool g_record = false, g_record_reads = false;
FaultPlan g_plan;
IoCounters g_cnt;
std::vector<IoEvent> g_trace;
std::unordered_map<int, std::string> g_fds;
std::unordered_map<int, bool> g_fail_next_write;  // short-write continuation
pthread_mutex_t g_lock = PTHREAD_MUTEX_INITIALIZER;

struct Guard {
  Guard() { __real_pthread_mutex_lock(&g_lock); }
  ~Guard() { __real_pthread_mutex_unlock(&g_lock); }
};

bool rel_of(const char *path, std::string &rel) {
  if (g_root.empty() || path == nullptr) return false;
  size_t n = g_root_noslash.size();
  if (strncmp(path, g_root_noslash.c_str(), n) != 0) return false;
  if (path[n] == 0) { rel.clear(); return true; }
  if (path[n] != '/') return false;
  rel = path + n + 1;
  while (!rel.empty() && rel.back() == '/') rel.pop_back();
  return true;
}

bool is_info(const std::string &rel) {
  size_t p = rel.rfind('/');
  std::string base = (p == std::string::npos) ? rel : rel.substr(p + 1);
  return base == "LOG" || base == "LOG.old";
}

// Decide whether this eligible call fails. Returns errno or 0.
int fault_decision(IoKind kind, const std::string &rel, bool *shortw) {
  *shortw = false;
  if (!(g_plan.kind_mask & (1u << kind))) return 0;
  if (!g_plan.name_contains.empty() && rel.find(g_plan.name_contains) == std::string::npos) return 0;
  if (g_plan.at < 0) { g_cnt.eligible++; g_cnt.eligible_class.push_back(std::string(io_kind_name(kind)) + "." + io_file_class(rel)); return 0; }
  int64_t idx = (int64_t)g_cnt.eligible++;
  bool hit = g_plan.persistent ? (idx >= g_plan.at) : (idx == g_plan.at);
  if (!hit) return 0;
  if (g_cnt.fired_at < 0) {
    g_cnt.fired_at = idx;
    g_cnt.fired_desc = std::string(io_kind_name(kind)) + " " + rel;
  }
  g_cnt.injected++;
  if (kind == IO_WRITE && g_plan.short_write && idx == g_plan.at) *shortw = true;
  return g_plan.err;
}

void push(IoEvent &&e) {
  e.tid = sched_self();
  g_trace.push_back(std::move(e));
}

}  // namespace

const char *io_kind_name(int k) {
  static const char *names[] = {"open", "close", "read", "pread", "write", "fsync", "fdatasync",
                                "rename", "unlink", "link", "mkdir", "rmdir", "mmap", "mark"};
  return (k >= 0 && k < IO_NKINDS) ? names[k] : "?";
}

const char *io_file_class(const std::string &rel) {
  size_t p = rel.rfind('/');
  std::string b = (p == std::string::npos) ? rel : rel.substr(p + 1);
  if (rel.empty()) return "dir";
  if (b == "CURRENT") return "current";
  if (b == "LOCK") return "lock";
  if (b == "LOG" || b == "LOG.old") return "info";
  if (b.compare(0, 9, "MANIFEST-") == 0) return "manifest";
  size_t dot = b.rfind('.');
  if (dot != std::string::npos) {
    std::string ext = b.substr(dot);
    if (ext == ".log") return "log";
    if (ext == ".ldb" || ext == ".sst") return "table";
    if (ext == ".dbtmp") return "temp";
  }
  return "other";
}

void io_set_root(const std::string &root) {
  Guard g;
  g_root_noslash = root;
  while (!g_root_noslash.empty() && g_root_noslash.back() == '/') g_root_noslash.pop_back();
  g_root = g_root_noslash + "/";
}
const std::string &io_root() { return g_root_noslash; }

static uint64_t g_perturb = 0, g_pcalls = 0, g_pdone = 0;
static uint64_t pmix(uint64_t x) { x ^= x >> 33; x *= 0xff51afd7ed558ccdULL; x ^= x >> 33; x *= 0xc4ceb9fe1a85ec53ULL; x ^= x >> 33; return x; }
// 0 = leave the call alone, 1 = EINTR, 2 = shorten *n (only when *n > 1)
static int perturb_decision(size_t *n) {
  if (!g_perturb) return 0;
  uint64_t h = pmix(g_perturb + 0x9e3779b97f4a7c15ULL * ++g_pcalls);
  unsigned c = (unsigned)(h & 15);
  if (c == 0) { g_pdone++; return 1; }
  if (c <= 4 && *n > 1) { *n = 1 + (size_t)((h >> 8) % (*n - 1)); g_pdone++; return 2; }
  return 0;
}

void io_set_perturb(uint64_t seed) { Guard g; g_perturb = seed; g_pcalls = 0; }
uint64_t io_perturbed() { return g_pdone; }

void io_reset() {
  Guard g;
  g_perturb = 0; g_pcalls = 0; g_pdone = 0;
  g_trace.clear();
  g_trace.shrink_to_fit();
  g_cnt = IoCounters();
  g_plan = FaultPlan();
  g_fds.clear();
  g_fail_next_write.clear();
  g_record = false;
  g_record_reads = false;
}

void io_record(bool on, bool with_reads) { g_record = on; g_record_reads = with_reads; }
void io_set_fault(const FaultPlan &p) {
  Guard g;
  g_plan = p;
  g_cnt.eligible = 0;
  g_cnt.eligible_class.clear();
  g_cnt.fired_at = -1;
  g_cnt.injected = 0;
  g_cnt.fired_desc.clear();
}
void io_clear_fault() {
  Guard g;
  g_plan = FaultPlan();
  g_fail_next_write.clear();
}
void io_mark(const std::string &text) {
  if (!g_record) return;
  Guard g;
  IoEvent e;
  e.kind = IO_MARK;
  e.data = text;
  push(std::move(e));
}
const std::vector<IoEvent> &io_trace() { return g_trace; }
std::vector<IoEvent> &io_trace_mut() { return g_trace; }
const IoCounters &io_counters() { return g_cnt; }

std::string io_event_str(const IoEvent &e, bool with_data) {
  char buf[512];
  std::string s;
  switch (e.kind) {
    case IO_MARK: return "mark " + e.data;
    case IO_OPEN:
      snprintf(buf, sizeof buf, "open %s flags=%s%s%s%s -> %lld", e.path.c_str(),
               (e.flags & O_ACCMODE) == O_RDONLY ? "R" : "W", (e.flags & O_CREAT) ? "C" : "",
               (e.flags & O_TRUNC) ? "T" : "", (e.flags & O_APPEND) ? "A" : "", (long long)e.result);
      break;
    case IO_WRITE:
      snprintf(buf, sizeof buf, "write fd=%d %s len=%zu -> %lld", e.fd, e.path.c_str(), e.data.size(), (long long)e.result);
      break;
    case IO_RENAME: case IO_LINK:
      snprintf(buf, sizeof buf, "%s %s -> %s = %lld", io_kind_name(e.kind), e.path.c_str(), e.path2.c_str(), (long long)e.result);
      break;
    default:
      snprintf(buf, sizeof buf, "%s fd=%d %s -> %lld", io_kind_name(e.kind), e.fd, e.path.c_str(), (long long)e.result);
  }
  s = buf;
  if (e.result < 0) { snprintf(buf, sizeof buf, " errno=%d%s", e.err, e.injected ? " (injected)" : ""); s += buf; }
  (void)with_data;
  return s;
}

}  // namespace vf

using namespace vf;

extern "C" {

int __wrap_open(const char *path, int flags, ...) {
  mode_t mode = 0;
  if (flags & O_CREAT) {
    va_list ap;
    va_start(ap, flags);
    mode = (mode_t)va_arg(ap, int);
    va_end(ap);
  }
  std::string rel;
  if (!rel_of(path, rel)) return __real_open(path, flags, mode);
  sched_yield_point("open");
  Guard g;
  g_cnt.calls[IO_OPEN]++;
  bool sw;
  bool info = is_info(rel);
  int err = info ? 0 : fault_decision(IO_OPEN, rel, &sw);
  int fd;
  if (err) { fd = -1; errno = err; }
  else fd = __real_open(path, flags, mode);
  int saved = errno;
  if (fd >= 0 && !info) g_fds[fd] = rel;
  else if (fd >= 0) g_fds.erase(fd);
  if (g_record && !info) {
    IoEvent e; e.kind = IO_OPEN; e.path = rel; e.flags = flags; e.fd = fd; e.result = fd; e.err = fd < 0 ? saved : 0; e.injected = err != 0;
    push(std::move(e));
  }
  errno = saved;
  return fd;
}

int __wrap_close(int fd) {
  std::string rel;
  {
    Guard g;
    auto it = g_fds.find(fd);
    if (it == g_fds.end()) goto real;
    rel = it->second;
  }
  sched_yield_point("close");
  {
    Guard g;
    g_cnt.calls[IO_CLOSE]++;
    bool sw;
    int err = fault_decision(IO_CLOSE, rel, &sw);
    // a failing close still releases the descriptor (Linux semantics)
    int rc = __real_close(fd);
    int saved = errno;
    if (err) { rc = -1; saved = err; }
    g_fds.erase(fd);
    g_fail_next_write.erase(fd);
    if (g_record) {
      IoEvent e; e.kind = IO_CLOSE; e.path = rel; e.fd = fd; e.result = rc; e.err = rc < 0 ? saved : 0; e.injected = err != 0;
      push(std::move(e));
    }
    errno = saved;
    return rc;
  }
real:
  return __real_close(fd);
}

static ssize_t do_read(IoKind kind, int fd, void *buf, size_t n, off_t off) {
  std::string rel;
  {
    Guard g;
    auto it = g_fds.find(fd);
    if (it == g_fds.end()) return kind == IO_READ ? __real_read(fd, buf, n) : __real_pread(fd, buf, n, off);
    rel = it->second;
  }
  sched_yield_point("read");
  Guard g;
  g_cnt.calls[kind]++;
  bool sw;
  int err = fault_decision(kind, rel, &sw);
  ssize_t rc;
  int pd = err ? 0 : perturb_decision(&n);
  if (err) { rc = -1; errno = err; }
  else if (pd == 1) { rc = -1; errno = EINTR; }
  else rc = kind == IO_READ ? __real_read(fd, buf, n) : __real_pread(fd, buf, n, off);
  int saved = errno;
  if (g_record && g_record_reads) {
    IoEvent e; e.kind = kind; e.path = rel; e.fd = fd; e.result = rc; e.err = rc < 0 ? saved : 0; e.injected = err != 0;
    push(std::move(e));
  }
  errno = saved;
  return rc;
}

ssize_t __wrap_read(int fd, void *buf, size_t n) { return do_read(IO_READ, fd, buf, n, 0); }
ssize_t __wrap_pread(int fd, void *buf, size_t n, off_t off) { return do_read(IO_PREAD, fd, buf, n, off); }

ssize_t __wrap_write(int fd, const void *buf, size_t n) {
  std::string rel;
  {
    Guard g;
    auto it = g_fds.find(fd);
    if (it == g_fds.end()) return __real_write(fd, buf, n);
    rel = it->second;
  }
  sched_yield_point("write");
  Guard g;
  g_cnt.calls[IO_WRITE]++;
  bool sw = false;
  int err = 0;
  auto fn = g_fail_next_write.find(fd);
  if (fn != g_fail_next_write.end()) {
    err = g_plan.err ? g_plan.err : EIO;
    g_fail_next_write.erase(fn);
    g_cnt.injected++;
  } else {
    err = fault_decision(IO_WRITE, rel, &sw);
  }
  ssize_t rc;
  bool injected = err != 0;
  int pd = err ? 0 : perturb_decision(&n);
  if (pd == 1) {
    rc = -1; errno = EINTR;
  } else if (err && sw && n >= 2) {
    rc = __real_write(fd, buf, n / 2);
    g_fail_next_write[fd] = true;
  } else if (err) {
    rc = -1; errno = err;
  } else {
    rc = __real_write(fd, buf, n);
  }
  int saved = errno;
  if (g_record) {
    IoEvent e; e.kind = IO_WRITE; e.path = rel; e.fd = fd; e.result = rc; e.err = rc < 0 ? saved : 0; e.injected = injected;
    if (rc > 0) e.data.assign((const char *)buf, (size_t)rc);
    push(std::move(e));
  }
  errno = saved;
  return rc;
}

static int do_sync(IoKind kind, int fd) {
  std::string rel;
  {
    Guard g;
    auto it = g_fds.find(fd);
    if (it == g_fds.end()) return kind == IO_FSYNC ? __real_fsync(fd) : __real_fdatasync(fd);
    rel = it->second;
  }
  sched_yield_point("sync");
  Guard g;
  g_cnt.calls[kind]++;
  bool sw;
  int err = fault_decision(kind, rel, &sw);
  int rc;
  if (err) { rc = -1; errno = err; }
  else rc = 0;  // tmpfs: nothing to do; skip the real call for speed
  int saved = errno;
  if (g_record) {
    IoEvent e; e.kind = kind; e.path = rel; e.fd = fd; e.result = rc; e.err = rc < 0 ? saved : 0; e.injected = err != 0;
    push(std::move(e));
  }
  errno = saved;
  return rc;
}

int __wrap_fsync(int fd) { return do_sync(IO_FSYNC, fd); }
int __wrap_fdatasync(int fd) { return do_sync(IO_FDATASYNC, fd); }

static int do_path2(IoKind kind, const char *a, const char *b) {
  std::string ra, rb;
  bool ta = rel_of(a, ra), tb = b ? rel_of(b, rb) : false;
  if (!ta && !tb) {
    switch (kind) {
      case IO_RENAME: return __real_rename(a, b);
      case IO_LINK: return __real_link(a, b);
      case IO_UNLINK: return __real_unlink(a);
      case IO_RMDIR: return __real_rmdir(a);
      default: return -1;
    }
  }
  if (!ta) ra = std::string("<outside>") + a;
  if (b && !tb) rb = std::string("<outside>") + b;
  sched_yield_point("dirop");
  Guard g;
  g_cnt.calls[kind]++;
  bool sw;
  bool info = is_info(ra);
  int err = info ? 0 : fault_decision(kind, ta ? ra : rb, &sw);
  int rc;
  if (err) { rc = -1; errno = err; }
  else {
    switch (kind) {
      case IO_RENAME: rc = __real_rename(a, b); break;
      case IO_LINK: rc = __real_link(a, b); break;
      case IO_UNLINK: rc = __real_unlink(a); break;
      case IO_RMDIR: rc = __real_rmdir(a); break;
      default: rc = -1;
    }
  }
  int saved = errno;
  if (g_record && !info) {
    IoEvent e; e.kind = kind; e.path = ra; e.path2 = rb; e.result = rc; e.err = rc < 0 ? saved : 0; e.injected = err != 0;
    push(std::move(e));
  }
  errno = saved;
  return rc;
}

int __wrap_rename(const char *a, const char *b) { return do_path2(IO_RENAME, a, b); }
int __wrap_link(const char *a, const char *b) { return do_path2(IO_LINK, a, b); }
int __wrap_unlink(const char *a) { return do_path2(IO_UNLINK, a, nullptr); }
int __wrap_rmdir(const char *a) { return do_path2(IO_RMDIR, a, nullptr); }

int __wrap_mkdir(const char *a, mode_t mode) {
  std::string rel;
  if (!rel_of(a, rel)) return __real_mkdir(a, mode);
  sched_yield_point("mkdir");
  Guard g;
  g_cnt.calls[IO_MKDIR]++;
  bool sw;
  int err = fault_decision(IO_MKDIR, rel, &sw);
  int rc;
  if (err) { rc = -1; errno = err; }
  else rc = __real_mkdir(a, mode);
  int saved = errno;
  if (g_record) {
    IoEvent e; e.kind = IO_MKDIR; e.path = rel; e.result = rc; e.err = rc < 0 ? saved : 0; e.injected = err != 0;
    push(std::move(e));
  }
  errno = saved;
  return rc;
}

void *__wrap_mmap(void *addr, size_t len, int prot, int flags, int fd, off_t off) {
  std::string rel;
  {
    Guard g;
    auto it = g_fds.find(fd);
    if (fd < 0 || it == g_fds.end()) return __real_mmap(addr, len, prot, flags, fd, off);
    rel = it->second;
  }
  sched_yield_point("mmap");
  Guard g;
  g_cnt.calls[IO_MMAP]++;
  bool sw;
  int err = fault_decision(IO_MMAP, rel, &sw);
  if (err) { errno = err; return MAP_FAILED; }
  return __real_mmap(addr, len, prot, flags, fd, off);
}

int __wrap_select(int n, fd_set *r, fd_set *w, fd_set *e, struct timeval *tv) {
  if (n == 0 && sched_active() && sched_self() >= 0) {
    sched_yield_point("sleep");
    return 0;  // lcdb's 1 ms back-off sleep: no real time passes under the scheduler
  }
  return __real_select(n, r, w, e, tv);
}

}  // extern "C"
