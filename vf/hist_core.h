// HistRunner: interpreter + oracles for single-client histories.
#ifndef VF_HIST_CORE_H
#define VF_HIST_CORE_H

#include <sys/stat.h>
#include <fcntl.h>
#include <sys/wait.h>

#include <functional>
#include <set>

#include "vfio.h"
#include "lc.h"
#include "vfsched.h"
#include "util.h"
#include "layout.h"

namespace vf {

// defined in gen.cc (rapidcheck generators; knows only the text format)
std::string gen_case(const char *kind, uint64_t seed, int size);

struct Failure {
  std::string prop, msg;
  int op_index = -1;
};

struct Violation {
  std::string prop, msg;
};

#define VF_FAIL(prop, ...) throw Violation{prop, sfmt(__VA_ARGS__)}

inline std::string show_key(const std::string &k) {
  if (k.size() <= 24) return lit_token(k);
  return lit_token(k.substr(0, 16)) + sfmt("..(%zu)", k.size());
}
inline std::string show_val(const std::string &v) {
  return sfmt("len=%zu h=%08x", v.size(), (unsigned)(fnv1a(v) & 0xffffffff));
}

class HistRunner {
 public:
  explicit HistRunner(Report *r) : rep(r) {}
  ~HistRunner() {}
  bool verbose = false;
  std::set<std::string> known;   // ids of open known findings (excluded by signature)

  bool run(const Case &c, Failure *f) {
    bool ok = true;
    int idx = -1;
    try {
      setup(c);
      for (idx = 0; idx < (int)c.ops.size(); idx++) {
        const Op &op = c.ops[idx];
        if (verbose) fprintf(stderr, "op %d: %s\n", idx, op.str().substr(0, 200).c_str());
        exec(op);
        post_op();
      }
      idx = (int)c.ops.size();
      final_checks();
      teardown(true);
    } catch (const Violation &v) {
      ok = false;
      f->prop = v.prop;
      f->msg = v.msg;
      f->op_index = idx;
      try { teardown(false); } catch (...) {}
    }
    finish_report(c, ok);
    return ok;
  }

 private:
  Report *rep;
  DbConfig cfg;
  DbOptions opts;
  std::string dir;
  ldb_t *db = nullptr;
  KeyLess less;
  ModelMap model{KeyLess()};
  std::set<std::string, KeyLess> universe{KeyLess()};
  bool sched_on = false;

  struct Snap {
    const ldb_snapshot_t *h;
    ModelMap view;
    std::map<std::string, uint64_t> modified_after;  // key -> compaction epoch at modification
  };
  std::map<int, Snap> snaps;

  struct It {
    ldb_iter_t *h;
    ModelMap view;
    ModelMap::const_iterator cur;
    bool valid = false;
    int dir = 0;  // +1 forward, -1 backward, 0 none
    std::set<uint64_t> pinned;
    int sources = 0;
    bool nt = false;
  };
  std::map<int, It> iters;

  // bookkeeping for the non-trivial rules
  uint64_t flush_epoch = 0, compaction_epoch = 0;
  std::map<std::string, uint64_t> write_epoch;
  long writes_since_flush = 0;
  bool c01_nt = false, c06_nt = false, c07_nt = false, c13_nt = false, c14_nt = false;
  bool had_reopen = false, had_bigval = false, had_tomb_above = false;
  bool iter_dirty = false;     // an iterator was destroyed since the last cleanup pass
  long deletions_seen = 0;     // table unlinks observed
  std::set<uint64_t> recently_unlinked;
  std::set<uint64_t> created_numbers_tables;
  Layout last_layout;
  SummaryCache summary_cache;
  bool final_pass = false;
  bool have_layout = false;
  size_t trace_pos = 0;
  std::set<uint64_t> layout_hashes;

  // ---------------------------------------------------------------------
  void setup(const Case &c) {
    for (auto &op : c.ops)
      if (op.name == "config") { cfg.apply(op); sched_cfg(op); break; }
    less.kind = cmp_kind_of(cfg.cmp);
    model = ModelMap(less);
    universe = std::set<std::string, KeyLess>(less);
    static int seq = 0;
    dir = scratch_root() + sfmt("/db%d", seq++);
    rm_rf(dir);
    io_reset();
    io_set_root(dir);
    io_record(true, false);
    if (iop_seed) io_set_perturb(iop_seed);
    if (scfg.strategy != ST_OFF) {
      sched_begin(scfg);
      sched_on = true;
    }
    open_db();
  }

  SchedConfig scfg;
  void sched_cfg(const Op &op) {
    std::string s = op.get("sched", "eager");
    if (const char *ov = getenv("VF_SCHED")) s = ov;
    if (s == "off") scfg.strategy = ST_OFF;
    else if (s == "starved") scfg.strategy = ST_STARVED;
    else if (s == "random") scfg.strategy = ST_RANDOM;
    else if (s == "pct") scfg.strategy = ST_PCT;
    else scfg.strategy = ST_EAGER;
    scfg.seed = (uint64_t)op.geti("sseed", 1);
    scfg.spurious = op.geti("spur", 0) != 0;
    scfg.step_limit = 20000000;
    iop_seed = op.geti("iop", 0) ? (uint64_t)op.geti("sseed", 1) * 2 + 1 : 0;
  }
  uint64_t iop_seed = 0;   // benign I/O perturbation (short reads/writes, EINTR): see vfio.h

  void open_db() {
    opts.build(cfg);
    sched_call_begin();
    int rc = ldb_open(dir.c_str(), &opts.opt, &db);
    sched_call_end();
    if (rc != LDB_OK) { db = nullptr; VF_FAIL("C01", "ldb_open failed rc=%d without any fault", rc); }
  }

  void close_db() {
    if (!db) return;
    for (auto &p : iters) ldb_iter_destroy(p.second.h);
    if (!iters.empty()) iter_dirty = true;
    iters.clear();
    for (auto &p : snaps) ldb_release(db, p.second.h);
    snaps.clear();
    sched_call_begin();
    ldb_close(db);
    sched_call_end();
    db = nullptr;
  }

  void teardown(bool clean) {
    if (db) close_db();
    if (sched_on) {
      int blocked = sched_end();
      sched_on = false;
      if (clean && blocked) VF_FAIL("C09", "%d thread(s) still blocked after ldb_close", blocked);
    }
    opts.clear();
    io_reset();
    if ((!clean && getenv("VF_KEEP")) || getenv("VF_KEEP_ALWAYS")) { std::string cmd = "rm -rf /tmp/vf-keep-hist; cp -r " + dir + " /tmp/vf-keep-hist"; if (system(cmd.c_str())) {} }
    rm_rf(dir);
    for (auto &b : backups) rm_rf(b.path);
    backups.clear();
  }

  void finish_report(const Case &c, bool ok) {
    uint64_t h = fnv1a(c.str());
    rep->count("ops", (long long)c.ops.size());
    if (!ok) return;
    if (c01_nt) rep->fp("C01.nt", h);
    if (c06_nt) rep->fp("C06.nt", h);
    if (c07_nt) rep->fp("C07.nt", h);
    if (c13_nt) rep->fp("C13.nt", h);
    if (c20_nt) rep->fp("C20.nt", h);
    if (iop_seed && had_reopen) rep->fp("C15.nt", h);   // a log was recovered through perturbed reads
    if (c20_nt) rep->count("class.C20_nontrivial");
    if (c20_failed_open) rep->count("class.C20_failed_open_then_reopen");
    for (uint64_t lh : layout_hashes) rep->fp("C14.nt", lh);
    if (iop_seed) rep->count("class.io_perturbed(short_reads_writes_eintr)");
    if (had_reopen) rep->count("class.reopen");
    if (had_bigval) rep->count("class.value>=64KiB");
    if (had_tomb_above) rep->count("class.tombstone_above_deeper_value");
    if (cfg.cmp != "bytewise") rep->count("class.custom_comparator");
    rep->count("class.cmp=" + cfg.cmp);
    rep->count(sfmt("class.comp=%d", cfg.comp));
    rep->count(sfmt("class.bloom=%s", cfg.bloom ? "on" : "off"));
    rep->count("class.cache=" + cfg.cache);
    rep->count(sfmt("class.mmap=%d", cfg.mmap));
    rep->count(sfmt("class.reuse_logs=%d", cfg.reuse));
    rep->count(sfmt("class.sched=%d", (int)scfg.strategy));
    if (c01_nt) rep->count("class.C01_nontrivial");
    if (c06_nt) rep->count("class.C06_nontrivial");
    if (c07_nt) rep->count("class.C07_nontrivial");
    if (c13_nt) rep->count("class.C13_nontrivial");
    if (!layout_hashes.empty()) rep->count("class.C14_nontrivial");
  }

  // ---------------------------------------------------------------------
  bool key_arg(const Op &op, size_t i, std::string &out) {
    if (i >= op.args.size()) return false;
    return expand_bytes(op.args[i], out);
  }

  ldb_readopt_t readopt(const Op &op, const ldb_snapshot_t *snap) {
    ldb_readopt_t ro = *ldb_readopt_default;
    ro.verify_checksums = (int)op.geti("verify", 0);
    ro.fill_cache = (int)op.geti("fill", 1);
    ro.snapshot = snap;
    return ro;
  }

  void note_write(const std::string &k, bool is_del) {
    universe.insert(k);
    write_epoch[k] = flush_epoch;
    for (auto &s : snaps) s.second.modified_after[k] = compaction_epoch;
    writes_since_flush++;
    if (is_del && flush_epoch > 0 && model.count(k)) {
      auto it = first_write_epoch.find(k);
      if (it != first_write_epoch.end() && it->second < flush_epoch) pending_tomb.insert(k);
    }
    if (!first_write_epoch.count(k)) first_write_epoch[k] = flush_epoch;
  }
  std::map<std::string, uint64_t> first_write_epoch;
  std::set<std::string> pending_tomb;

  void model_put(const std::string &k, const std::string &v) {
    note_write(k, false);
    model[k] = std::make_shared<const std::string>(v);
    if (v.size() >= (64 << 10)) had_bigval = true;
  }
  void model_del(const std::string &k) {
    note_write(k, true);
    model.erase(k);
  }

  void check_write_rc(int rc, const Op &op) {
    if (rc != LDB_OK) VF_FAIL("C01", "%s returned rc=%d without any fault", op.name.c_str(), rc);
  }

  // compare one point read against a view
  std::set<std::string> poisoned;   // keys hit by an open known finding (C19): excluded from later reads
  void check_get(const std::string &k, const ModelMap &view, const ldb_snapshot_t *snap, const Op &op,
                 const char *prop, bool use_has = false) {
    if (poisoned.count(k)) return;
    ldb_slice_t ks = slice_of(k), val;
    ldb_readopt_t ro = readopt(op, snap);
    int rc;
    sched_call_begin();
    if (use_has) rc = ldb_has(db, &ks, &ro);
    else rc = ldb_get(db, &ks, &val, &ro);
    sched_call_end();
    auto it = view.find(k);
    rep->count("reads");
    if (it == view.end()) {
      if (rc == LDB_OK) {
        std::string got = use_has ? std::string() : str_of(val);
        if (!use_has) ldb_free(val.data);
        VF_FAIL(prop, "get(%s) returned a value (%s) but the key is absent in the model%s", show_key(k).c_str(),
                show_val(got).c_str(), snap ? " [snapshot]" : "");
      }
      if (rc != LDB_NOTFOUND) VF_FAIL(prop, "get(%s) returned rc=%d, expected NOTFOUND", show_key(k).c_str(), rc);
    } else {
      if (rc == LDB_NOTFOUND)
        VF_FAIL(prop, "%s(%s) returned NOTFOUND but the model has %s%s", use_has ? "has" : "get", show_key(k).c_str(),
                show_val(*it->second).c_str(), snap ? " [snapshot]" : "");
      if (rc != LDB_OK) VF_FAIL(prop, "get(%s) returned rc=%d, expected OK", show_key(k).c_str(), rc);
      if (!use_has) {
        std::string got = str_of(val);
        ldb_free(val.data);
        if (got != *it->second)
          VF_FAIL(prop, "get(%s) returned %s, model has %s%s", show_key(k).c_str(), show_val(got).c_str(),
                  show_val(*it->second).c_str(), snap ? " [snapshot]" : "");
      }
    }
    if (!snap) {
      auto we = write_epoch.find(k);
      if (we != write_epoch.end() && we->second < flush_epoch) c01_nt = true;
    }
  }

  void check_snap_get(int sid, const std::string &k, const Op &op, bool use_has) {
    auto it = snaps.find(sid);
    if (it == snaps.end()) { rep->count("skipped_ops"); return; }
    check_get(k, it->second.view, it->second.h, op, "C06", use_has);
    auto m = it->second.modified_after.find(k);
    if (m != it->second.modified_after.end() && m->second < compaction_epoch) c06_nt = true;
  }

  // full scan forward and backward with a fresh iterator
  void check_scan(const ModelMap &view, const ldb_snapshot_t *snap, const char *prop) {
    Op dummy;
    ldb_readopt_t ro = readopt(dummy, snap);
    ldb_iter_t *it = ldb_iterator(db, &ro);
    auto m = view.begin();
    size_t n = 0;
    for (ldb_iter_first(it); ldb_iter_valid(it); ldb_iter_next(it), ++m, ++n) {
      if (m == view.end()) {
        std::string k = str_of(ldb_iter_key(it));
        ldb_iter_destroy(it);
        VF_FAIL(prop, "forward scan yields extra key %s after %zu entries", show_key(k).c_str(), n);
      }
      std::string k = str_of(ldb_iter_key(it)), v = str_of(ldb_iter_value(it));
      if (k != m->first || v != *m->second) {
        ldb_iter_destroy(it);
        VF_FAIL(prop, "forward scan entry %zu is (%s,%s), model has (%s,%s)", n, show_key(k).c_str(), show_val(v).c_str(),
                show_key(m->first).c_str(), show_val(*m->second).c_str());
      }
    }
    int st = ldb_iter_status(it);
    if (st != LDB_OK) { ldb_iter_destroy(it); VF_FAIL(prop, "forward scan status rc=%d", st); }
    if (m != view.end()) {
      ldb_iter_destroy(it);
      VF_FAIL(prop, "forward scan ended after %zu entries, model has %zu (missing %s)", n, view.size(), show_key(m->first).c_str());
    }
    auto r = view.rbegin();
    n = 0;
    for (ldb_iter_last(it); ldb_iter_valid(it); ldb_iter_prev(it), ++r, ++n) {
      if (r == view.rend()) {
        std::string k = str_of(ldb_iter_key(it));
        ldb_iter_destroy(it);
        VF_FAIL(prop, "backward scan yields extra key %s after %zu entries", show_key(k).c_str(), n);
      }
      std::string k = str_of(ldb_iter_key(it)), v = str_of(ldb_iter_value(it));
      if (k != r->first || v != *r->second) {
        ldb_iter_destroy(it);
        VF_FAIL(prop, "backward scan entry %zu is (%s,%s), model has (%s,%s)", n, show_key(k).c_str(), show_val(v).c_str(),
                show_key(r->first).c_str(), show_val(*r->second).c_str());
      }
    }
    st = ldb_iter_status(it);
    ldb_iter_destroy(it);
    if (st != LDB_OK) VF_FAIL(prop, "backward scan status rc=%d", st);
    if (r != view.rend()) VF_FAIL(prop, "backward scan ended after %zu entries, model has %zu", n, view.size());
    rep->count("scans");
  }

  void full_check() {
    Op dummy;
    for (auto &k : universe) check_get(k, model, nullptr, dummy, "C01");
    check_scan(model, nullptr, "C07");
    for (auto &s : snaps) {
      for (auto &k : universe) {
        check_get(k, s.second.view, s.second.h, dummy, "C06");
        auto m = s.second.modified_after.find(k);
        if (m != s.second.modified_after.end() && m->second < compaction_epoch) c06_nt = true;
      }
      check_scan(s.second.view, s.second.h, "C06");
    }
    verify_foreign("at a full check");
    rep->count("full_checks");
  }

  // ---- iterators -------------------------------------------------------
  void iter_compare(It &it, const char *what) {
    int v = ldb_iter_valid(it.h);
    int st = ldb_iter_status(it.h);
    if (st != LDB_OK) VF_FAIL("C07", "iterator status rc=%d after %s", st, what);
    if ((v != 0) != it.valid)
      VF_FAIL("C07", "after %s iterator valid=%d, model valid=%d%s", what, v, (int)it.valid,
              it.valid ? (" at " + show_key(it.cur->first)).c_str() : (v ? (" at " + show_key(str_of(ldb_iter_key(it.h)))).c_str() : ""));
    if (!v) return;
    std::string k = str_of(ldb_iter_key(it.h)), val = str_of(ldb_iter_value(it.h));
    if (k != it.cur->first)
      VF_FAIL("C07", "after %s iterator at key %s, model at %s", what, show_key(k).c_str(), show_key(it.cur->first).c_str());
    if (val != *it.cur->second)
      VF_FAIL("C07", "after %s iterator value for %s is %s, model has %s", what, show_key(k).c_str(), show_val(val).c_str(),
              show_val(*it.cur->second).c_str());
    rep->count("iter_steps");
  }

  void iter_op(const Op &op) {
    if (op.args.size() < 2) { rep->count("skipped_ops"); return; }
    int id = atoi(op.args[0].c_str());
    auto f = iters.find(id);
    if (f == iters.end()) { rep->count("skipped_ops"); return; }
    It &it = f->second;
    const std::string &act = op.args[1];
    std::string k;
    bool needs_key = act.compare(0, 4, "seek") == 0;
    if (needs_key && !key_arg(op, 2, k)) { rep->count("skipped_ops"); return; }
    ldb_slice_t ks = slice_of(k);
    int newdir = it.dir;
    sched_call_begin();
    if (act == "first") {
      ldb_iter_first(it.h);
      it.cur = it.view.begin(); it.valid = it.cur != it.view.end(); newdir = +1;
    } else if (act == "last") {
      ldb_iter_last(it.h);
      if (it.view.empty()) it.valid = false;
      else { it.cur = std::prev(it.view.end()); it.valid = true; }
      newdir = -1;
    } else if (act == "seek" || act == "seek_ge") {
      if (act == "seek") ldb_iter_seek(it.h, &ks); else ldb_iter_seek_ge(it.h, &ks);
      it.cur = it.view.lower_bound(k); it.valid = it.cur != it.view.end(); newdir = +1;
    } else if (act == "seek_gt") {
      ldb_iter_seek_gt(it.h, &ks);
      it.cur = it.view.upper_bound(k); it.valid = it.cur != it.view.end(); newdir = +1;
    } else if (act == "seek_le") {
      ldb_iter_seek_le(it.h, &ks);
      auto u = it.view.upper_bound(k);
      if (u == it.view.begin()) it.valid = false; else { it.cur = std::prev(u); it.valid = true; }
      newdir = -1;
    } else if (act == "seek_lt") {
      ldb_iter_seek_lt(it.h, &ks);
      auto u = it.view.lower_bound(k);
      if (u == it.view.begin()) it.valid = false; else { it.cur = std::prev(u); it.valid = true; }
      newdir = -1;
    } else if (act == "next") {
      if (!it.valid) { sched_call_end(); rep->count("skipped_ops"); return; }
      ldb_iter_next(it.h);
      ++it.cur; it.valid = it.cur != it.view.end(); newdir = +1;
    } else if (act == "prev") {
      if (!it.valid) { sched_call_end(); rep->count("skipped_ops"); return; }
      ldb_iter_prev(it.h);
      if (it.cur == it.view.begin()) it.valid = false; else --it.cur;
      newdir = -1;
    } else {
      sched_call_end();
      rep->count("skipped_ops");
      return;
    }
    sched_call_end();
    if ((act == "next" || act == "prev") && it.dir != 0 && newdir != it.dir && it.sources >= 2) { it.nt = true; c07_nt = true; }
    if (needs_key && universe.count(k) && !it.view.count(k) && it.sources >= 1) { it.nt = true; c07_nt = true; }
    it.dir = newdir;
    iter_compare(it, act.c_str());
    // the entry under the cursor must agree with the sign of ldb_iter_compare
    if (it.valid && needs_key) {
      int c = ldb_iter_compare(it.h, &ks);
      int mc = cmp_apply(less.kind, it.cur->first.data(), it.cur->first.size(), k.data(), k.size());
      if ((c < 0) != (mc < 0) || (c > 0) != (mc > 0))
        VF_FAIL("C07", "ldb_iter_compare sign %d disagrees with comparator %d", c, mc);
    }
  }

  // ---- layout / structural checks --------------------------------------
  Layout get_layout() {
    char *val = nullptr;
    Layout L;
    if (!ldb_property(db, "leveldb.sstables", &val) || !val) VF_FAIL("C14", "property leveldb.sstables unavailable");
    std::string text = val;
    ldb_free(val);
    std::string err;
    if (!parse_layout(text, L, &err)) VF_FAIL("C14", "cannot parse leveldb.sstables: %s", err.c_str());
    return L;
  }

  void quiesce() {
    if (sched_on) sched_quiesce();
    process_trace();
  }

  void structural_check(bool cleanup_ran) {
    if (!db) return;
    if (!sched_on) return;  // without the scheduler there is no quiescent point: layout checks would race with compaction
    quiesce();
    process_trace();
    Layout L = get_layout();
    rep->count("layout_checks");
    // files exist with the stated size (C14) and are not among those just unlinked (C13)
    std::set<uint64_t> live;
    int nonempty = 0;
    bool multi = false;
    for (int lv = 0; lv < 7; lv++) {
      if (!L.levels[lv].empty()) nonempty++;
      if (lv >= 1 && L.levels[lv].size() >= 2) multi = true;
      for (auto &f : L.levels[lv]) {
        live.insert(f.number);
        long long sz = file_size(table_path(f.number));
        if (sz < 0) VF_FAIL("C13", "table #%llu is in the reported layout (level %d) but does not exist on disk", (unsigned long long)f.number, lv);
        if ((uint64_t)sz != f.size) VF_FAIL("C14", "table #%llu: reported size %llu, on disk %lld", (unsigned long long)f.number, (unsigned long long)f.size, sz);
        if (recently_unlinked.count(f.number)) VF_FAIL("C13", "table #%llu was unlinked but is in the current layout", (unsigned long long)f.number);
      }
    }
    recently_unlinked.clear();
    std::string why;
    if (final_pass) summary_cache.clear();  // the last check re-decodes every table from disk
    if (!layout_deep_check(L, dir, less.kind, &why, &summary_cache, repaired_l0_unordered)) {
      std::string p = why.substr(0, 3);
      // after ldb_repair every table sits in level 0 under its old number, so level-0 number order no longer follows data
      // age: the same root cause as the known C19 finding (stale point reads after repair)
      if (was_repaired && why.find("in L0 table") != std::string::npos && why.find("is not older than") != std::string::npos &&
          why.find("in L0 table", why.find("is not older than")) != std::string::npos) {
        if (known.count("repair-stale-get-file-order")) {
          rep->count("known.repair-stale-get-file-order");
          repaired_l0_unordered = true;
          if (!layout_deep_check(L, dir, less.kind, &why, &summary_cache, true)) VF_FAIL(why.substr(0, 3) == "C13" ? "C13" : "C14", "%s", why.c_str());
        } else {
          throw Violation{"C19:repair-stale-get-file-order", "after repair the level-0 tables are not ordered by age: " + why};
        }
      } else {
        VF_FAIL(p == "C13" ? "C13" : "C14", "%s", why.c_str());
      }
    }
    check_manifest_against_layout(L);
    if (nonempty >= 2 || multi) layout_hashes.insert(L.hash());
    if (nonempty >= 2) rep->count("class.layout>=2levels");
    // leak check (C13): only when nothing may legitimately pin an obsolete file
    if (sched_on && cleanup_ran && iters.empty()) {
      std::set<std::string> expect = {"CURRENT", "LOCK", "LOG"};
      std::vector<std::string> names = list_dir(dir);
      uint64_t max_log = 0, max_manifest = 0;
      int nlogs = 0, nman = 0;
      for (auto &n : names) {
        uint64_t num; std::string kind;
        if (n == "CURRENT" || n == "LOCK" || n == "LOG" || n == "LOG.old") continue;
        if (!parse_db_filename(n, &num, &kind)) continue;  // not a database file (foreign file, repair's lost/ directory)
        if (kind == "table") {
          if (!live.count(num)) VF_FAIL("C13", "leaked table file %s: not in the layout after cleanup with no iterators alive", n.c_str());
        } else if (kind == "log") { nlogs++; if (num > max_log) max_log = num; }
        else if (kind == "manifest") { nman++; if (num > max_manifest) max_manifest = num; }
        else if (kind == "temp") VF_FAIL("C13", "leaked temporary file %s", n.c_str());
      }
      if (nlogs != 1) VF_FAIL("C13", "%d log files present after cleanup, expected exactly the live one", nlogs);
      if (nman != 1) VF_FAIL("C13", "%d MANIFEST files present after cleanup, expected exactly the live one", nman);
      for (auto &e : expect)
        if (!std::binary_search(names.begin(), names.end(), e)) VF_FAIL("C13", "%s missing from the database directory", e.c_str());
      // CURRENT must name the manifest that is present
      std::string cur;
      read_file(dir + "/CURRENT", cur);
      if (cur != sfmt("MANIFEST-%06llu\n", (unsigned long long)max_manifest))
        VF_FAIL("C13", "CURRENT does not name the only MANIFEST present");
      rep->count("leak_checks");
      if (deletions_seen > 0) c13_nt = true;
      iter_dirty = false;
    }
    last_layout = L;
    have_layout = true;
  }

  // C17: replaying the MANIFEST named by CURRENT with the reference decoder reproduces the reported file set
  void check_manifest_against_layout(const Layout &L) {
    std::string cur, mbytes;
    if (!read_file(dir + "/CURRENT", cur) || cur.empty() || cur.back() != '\n') VF_FAIL("C17", "CURRENT missing or not newline-terminated at a quiescent point");
    std::string mname = cur.substr(0, cur.size() - 1);
    if (!read_file(dir + "/" + mname, mbytes)) VF_FAIL("C17", "CURRENT names %s which does not exist", mname.c_str());
    ref::VersionState vs;
    std::string err;
    ref::LogDecode ld;
    if (!ref::manifest_replay(mbytes, &vs, &err, &ld)) VF_FAIL("C17", "reference decoder cannot replay %s: %s", mname.c_str(), err.c_str());
    if (ld.torn_tail) VF_FAIL("C17", "%s ends in a partial record at a quiescent point", mname.c_str());
    for (int lv = 0; lv < 7; lv++) {
      if (vs.levels[lv].size() != L.levels[lv].size())
        VF_FAIL("C17", "level %d: MANIFEST replay has %zu files, reported layout has %zu", lv, vs.levels[lv].size(), L.levels[lv].size());
      for (auto &f : L.levels[lv]) {
        auto it = vs.levels[lv].find(f.number);
        if (it == vs.levels[lv].end()) VF_FAIL("C17", "level %d: table #%llu is in the reported layout but not in the MANIFEST replay", lv, (unsigned long long)f.number);
        if (it->second.size != f.size || ikey_debug(it->second.smallest) != f.smallest || ikey_debug(it->second.largest) != f.largest)
          VF_FAIL("C17", "table #%llu: MANIFEST replay (size %llu, %s .. %s) differs from the reported layout (size %llu, %s .. %s)", (unsigned long long)f.number,
                  (unsigned long long)it->second.size, ikey_debug(it->second.smallest).c_str(), ikey_debug(it->second.largest).c_str(),
                  (unsigned long long)f.size, f.smallest.c_str(), f.largest.c_str());
      }
    }
    // counters: next-file is above every table the MANIFEST names (logs may legitimately be newer than the
    // last edit: their numbers are re-marked from the directory listing at recovery)
    uint64_t maxnum = 0;
    for (int lv = 0; lv < 7; lv++) for (auto &f : L.levels[lv]) if (f.number > maxnum) maxnum = f.number;
    if (!vs.has_next || !vs.has_last_seq || !vs.has_log) VF_FAIL("C17", "MANIFEST replay lacks next-file / last-sequence / log-number");
    if (L.files() && vs.next_file <= maxnum) VF_FAIL("C17", "MANIFEST next-file %llu is not above the largest table number %llu it names", (unsigned long long)vs.next_file, (unsigned long long)maxnum);
    const char *want_cmp = cfg.cmp == "reverse" ? "vf.reverse" : cfg.cmp == "clone" ? "vf.bytewise-clone" : cfg.cmp == "lenfirst" ? "vf.lenfirst" : "leveldb.BytewiseComparator";
    if (vs.comparator != want_cmp) VF_FAIL("C17", "MANIFEST comparator name %s, database uses %s", vs.comparator.c_str(), want_cmp);
    rep->count("manifest_replays");
    if (vs.edits >= 2 && L.files() >= 1) rep->fp("C17.nt", fnv1a(mbytes));
  }

  std::string table_path(uint64_t n) {
    std::string p = dir + sfmt("/%06llu.ldb", (unsigned long long)n);
    if (file_size(p) < 0) {
      std::string q = dir + sfmt("/%06llu.sst", (unsigned long long)n);
      if (file_size(q) >= 0) return q;
    }
    return p;
  }

  // C13 safety: scan the directory operations issued since the last call
  void process_trace() {
    const std::vector<IoEvent> &tr = io_trace();
    for (; trace_pos < tr.size(); trace_pos++) {
      const IoEvent &e = tr[trace_pos];
      if (e.result < 0) continue;
      uint64_t num; std::string kind;
      if (e.kind == IO_UNLINK) {
        if (!parse_db_filename(e.path, &num, &kind)) continue;
        if (kind == "table") {
          deletions_seen++;
          recently_unlinked.insert(num);
          for (auto &p : iters)
            if (p.second.pinned.count(num)) {
              c13_nt = true;
              VF_FAIL("C13", "table #%llu unlinked while iterator %d (created when it was live) is still alive", (unsigned long long)num, p.first);
            }
          if (!iters.empty()) c13_nt = true;
        }
      } else if (e.kind == IO_OPEN && (e.flags & O_CREAT) && (e.flags & O_TRUNC) && (e.flags & O_ACCMODE) != O_RDONLY) {
        // new files are created with O_TRUNC; an O_APPEND open of an existing log/MANIFEST (reuse_logs) is not a creation
        if (!parse_db_filename(e.path, &num, &kind)) continue;
        if (min_new_number && (kind == "table" || kind == "log" || kind == "manifest") && num <= min_new_number && e.path.find('/') == std::string::npos)
          VF_FAIL("C19", "after repair the new file %s takes number %llu, not above the largest number present at repair time (%llu)", e.path.c_str(), (unsigned long long)num, (unsigned long long)min_new_number);
        if (kind == "table") {
          for (auto &p : iters)
            if (p.second.pinned.count(num))
              VF_FAIL("C13", "table number %llu re-created while an iterator still pins the earlier file", (unsigned long long)num);
          if (have_layout && last_layout.has(num) && !recently_unlinked.count(num))
            VF_FAIL("C13", "table number %llu re-created while the earlier file is live", (unsigned long long)num);
          summary_cache.erase(num);
          // an orphan (e.g. the abandoned output of a compaction that ldb_close interrupted) may be unlinked and its
          // number, never recorded in the MANIFEST, legitimately handed out again: the later file is a new one
          recently_unlinked.erase(num);
          if (!created_numbers_tables.insert(num).second) rep->count("table_number_recreated_after_death");
        }
      }
    }
    if (tr.size() > 4096) { io_trace_mut().clear(); trace_pos = 0; }
  }

  void post_op() { process_trace(); }

  // ---------------------------------------------------------------------
  void exec(const Op &op) {
    const std::string &n = op.name;
    rep->count("op." + n);
    if (n == "config") return;
    if (!db) { rep->count("skipped_ops"); return; }
    ldb_writeopt_t wo = *ldb_writeopt_default;
    wo.sync = (int)op.geti("sync", 0);
    if (n == "put") {
      std::string k, v;
      if (!key_arg(op, 0, k) || !key_arg(op, 1, v)) { rep->count("skipped_ops"); return; }
      ldb_slice_t ks = slice_of(k), vs = slice_of(v);
      sched_call_begin();
      int rc = ldb_put(db, &ks, &vs, &wo);
      sched_call_end();
      check_write_rc(rc, op);
      model_put(k, v);
      check_get(k, model, nullptr, op, "C01");
    } else if (n == "del") {
      std::string k;
      if (!key_arg(op, 0, k)) { rep->count("skipped_ops"); return; }
      ldb_slice_t ks = slice_of(k);
      sched_call_begin();
      int rc = ldb_del(db, &ks, &wo);
      sched_call_end();
      check_write_rc(rc, op);
      model_del(k);
      check_get(k, model, nullptr, op, "C01");
    } else if (n == "batch") {
      ldb_batch_t *b = ldb_batch_create();
      std::vector<std::pair<std::string, std::pair<bool, std::string>>> ups;
      for (auto &a : op.args) {
        std::string k, v;
        if (a.compare(0, 2, "p:") == 0) {
          size_t c = a.find(':', 2);
          if (c == std::string::npos) continue;
          if (!expand_bytes(a.substr(2, c - 2), k) || !expand_bytes(a.substr(c + 1), v)) continue;
          ldb_slice_t ks = slice_of(k), vs = slice_of(v);
          ldb_batch_put(b, &ks, &vs);
          ups.push_back({k, {true, v}});
        } else if (a.compare(0, 2, "d:") == 0) {
          if (!expand_bytes(a.substr(2), k)) continue;
          ldb_slice_t ks = slice_of(k);
          ldb_batch_del(b, &ks);
          ups.push_back({k, {false, ""}});
        }
      }
      sched_call_begin();
      int rc = ldb_write(db, b, &wo);
      sched_call_end();
      ldb_batch_destroy(b);
      check_write_rc(rc, op);
      for (auto &u : ups) { if (u.second.first) model_put(u.first, u.second.second); else model_del(u.first); }
      for (auto &u : ups) check_get(u.first, model, nullptr, op, "C01");
    } else if (n == "get" || n == "has") {
      std::string k;
      if (!key_arg(op, 0, k)) { rep->count("skipped_ops"); return; }
      if (op.has("snap")) check_snap_get((int)op.geti("snap"), k, op, n == "has");
      else check_get(k, model, nullptr, op, "C01", n == "has");
    } else if (n == "reads") {
      std::string k;
      if (!key_arg(op, 0, k)) { rep->count("skipped_ops"); return; }
      long cnt = op.args.size() > 1 ? atol(op.args[1].c_str()) : 10;
      if (cnt > 2000) cnt = 2000;
      for (long i = 0; i < cnt; i++) check_get(k, model, nullptr, op, "C01");
    } else if (n == "fill") {
      long lo = op.args.size() > 0 ? atol(op.args[0].c_str()) : 0;
      long hi = op.args.size() > 1 ? atol(op.args[1].c_str()) : lo + 10;
      long nb = op.args.size() > 2 ? atol(op.args[2].c_str()) : 1000;
      long sd = op.args.size() > 3 ? atol(op.args[3].c_str()) : 1;
      if (hi - lo > 5000) hi = lo + 5000;
      if (nb > (2 << 20)) nb = 2 << 20;
      for (long i = lo; i < hi; i++) {
        std::string k = sfmt("k%05ld", i), v;
        expand_bytes(sfmt("%c%ld.%ld", (sd & 1) ? 'r' : 'c', sd * 100003 + i, nb), v);
        ldb_slice_t ks = slice_of(k), vs = slice_of(v);
        sched_call_begin();
        int rc = ldb_put(db, &ks, &vs, &wo);
        sched_call_end();
        check_write_rc(rc, op);
        model_put(k, v);
      }
      // automatic flushes may have happened: treat as structural change
      flush_epoch++;
      structural_check(false);
    } else if (n == "flush") {
      sched_call_begin();
      int rc = ldb_test_compact_memtable(db);
      sched_call_end();
      if (rc != LDB_OK) VF_FAIL("C01", "flush returned rc=%d without any fault", rc);
      flush_epoch++;
      writes_since_flush = 0;
      note_tomb_flushed();
      structural_check(true);
    } else if (n == "crange") {
      int level = op.args.size() > 0 ? atoi(op.args[0].c_str()) : 0;
      if (level < 0 || level > 5) { rep->count("skipped_ops"); return; }
      std::string b, e;
      bool hb = op.args.size() > 1 && op.args[1] != "-" && expand_bytes(op.args[1], b);
      bool he = op.args.size() > 2 && op.args[2] != "-" && expand_bytes(op.args[2], e);
      ldb_slice_t bs = slice_of(b), es = slice_of(e);
      sched_call_begin();
      ldb_test_compact_range(db, level, hb ? &bs : nullptr, he ? &es : nullptr);
      sched_call_end();
      flush_epoch++;
      compaction_epoch++;
      structural_check(false);
    } else if (n == "compact") {
      std::string b, e;
      bool hb = op.args.size() > 0 && op.args[0] != "-" && expand_bytes(op.args[0], b);
      bool he = op.args.size() > 1 && op.args[1] != "-" && expand_bytes(op.args[1], e);
      ldb_slice_t bs = slice_of(b), es = slice_of(e);
      sched_call_begin();
      ldb_compact(db, hb ? &bs : nullptr, he ? &es : nullptr);
      sched_call_end();
      flush_epoch++;
      compaction_epoch++;
      writes_since_flush = 0;
      note_tomb_flushed();
      structural_check(true);
    } else if (n == "snap") {
      int id = op.args.size() > 0 ? atoi(op.args[0].c_str()) : 0;
      if (snaps.count(id) || snaps.size() >= 8) { rep->count("skipped_ops"); return; }
      Snap s;
      s.h = ldb_snapshot(db);
      s.view = model;
      snaps.emplace(id, std::move(s));
    } else if (n == "release") {
      int id = op.args.size() > 0 ? atoi(op.args[0].c_str()) : 0;
      auto it = snaps.find(id);
      if (it == snaps.end()) { rep->count("skipped_ops"); return; }
      ldb_release(db, it->second.h);
      snaps.erase(it);
    } else if (n == "iter_new") {
      int id = op.args.size() > 0 ? atoi(op.args[0].c_str()) : 0;
      if (iters.count(id) || iters.size() >= 6) { rep->count("skipped_ops"); return; }
      const ldb_snapshot_t *sh = nullptr;
      It it;
      if (op.has("snap")) {
        auto s = snaps.find((int)op.geti("snap"));
        if (s == snaps.end()) { rep->count("skipped_ops"); return; }
        sh = s->second.h;
        it.view = s->second.view;
      } else {
        it.view = model;
      }
      // files that this iterator pins: the layout at creation
      quiesce();
      Layout L;
      if (sched_on) L = get_layout();
      int src = writes_since_flush > 0 ? 1 : 0;
      for (int lv = 0; lv < 7; lv++) {
        for (auto &f : L.levels[lv]) it.pinned.insert(f.number);
        if (lv == 0) src += (int)L.levels[0].size();
        else if (!L.levels[lv].empty()) src++;
      }
      it.sources = src;
      ldb_readopt_t ro = readopt(op, sh);
      sched_call_begin();
      it.h = ldb_iterator(db, &ro);
      sched_call_end();
      it.cur = it.view.end();
      it.valid = false;
      auto ins = iters.emplace(id, std::move(it));
      ins.first->second.cur = ins.first->second.view.end();
      if (ldb_iter_valid(ins.first->second.h)) VF_FAIL("C07", "fresh iterator reports valid before positioning");
    } else if (n == "iter") {
      iter_op(op);
    } else if (n == "iter_del") {
      int id = op.args.size() > 0 ? atoi(op.args[0].c_str()) : 0;
      auto it = iters.find(id);
      if (it == iters.end()) { rep->count("skipped_ops"); return; }
      ldb_iter_destroy(it->second.h);
      iters.erase(it);
      iter_dirty = true;
    } else if (n == "reopen") {
      bool compare_layout = (writes_since_flush == 0) && sched_on;
      Layout before;
      if (compare_layout) { quiesce(); before = get_layout(); }
      close_db();
      if (sched_on) sched_quiesce();
      cfg.apply(op);
      // the comparator never changes across reopen (precondition; C20 covers mismatch)
      cfg.cmp = cmp_name_locked.empty() ? cfg.cmp : cmp_name_locked;
      open_db();
      had_reopen = true;
      flush_epoch++;
      if (compare_layout) {
        quiesce();
        Layout after = get_layout();
        if (!(before == after))
          VF_FAIL("C14", "layout changed across close+reopen with an empty write buffer:\nbefore:\n%s\nafter:\n%s", before.str().c_str(), after.str().c_str());
        rep->count("reopen_layout_compared");
      }
      // with reuse_logs the recovered log may stay in the write buffer
      if (!cfg.reuse) { writes_since_flush = 0; note_tomb_flushed(); }
      structural_check(true);
      full_check();
    } else if (n == "repair") {
      op_repair(op);
    } else if (n == "backup") {
      op_backup(op);
    } else if (n == "bcheck") {
      op_bcheck();
    } else if (n == "copy") {
      op_copy(op);
    } else if (n == "destroy") {
      op_destroy(op);
    } else if (n == "lockprobe") {
      op_lockprobe();
    } else if (n == "foreign") {
      op_foreign(op);
    } else if (n == "badopen") {
      op_badopen(op);
    } else if (n == "check") {
      full_check();
    } else if (n == "prop") {
      char *v = nullptr;
      const char *names[] = {"leveldb.stats", "leveldb.approximate-memory-usage", "leveldb.num-files-at-level0", "leveldb.sstables"};
      for (const char *pn : names) {
        if (!ldb_property(db, pn, &v) || !v) VF_FAIL("C14", "property %s unavailable", pn);
        ldb_free(v);
      }
    } else if (n == "approx") {
      std::string b, e;
      if (!key_arg(op, 0, b) || !key_arg(op, 1, e)) { rep->count("skipped_ops"); return; }
      ldb_range_t r;
      r.start = slice_of(b);
      r.limit = slice_of(e);
      ldb_uint64_t sz = 0;
      ldb_approximate_sizes(db, &r, 1, &sz);
    } else {
      rep->count("skipped_ops");
    }
  }
  std::string cmp_name_locked;

  // ------------------------------------------------------------------ C19
  struct Version { uint64_t seq; bool del; std::string value; uint64_t file; bool from_log; };

  // newest-wins contents computed independently from the surviving files (reference decoders)
  void durable_contents(std::map<std::string, std::vector<Version>> &all) {
    for (auto &n : list_dir(dir)) {
      uint64_t num; std::string kind;
      if (!parse_db_filename(n, &num, &kind)) continue;
      std::string bytes;
      if (!read_file(dir + "/" + n, bytes)) continue;
      if (kind == "table") {
        ref::Table t;
        std::string err;
        // an output abandoned by a compaction that ldb_close interrupted is incomplete; whatever repair salvages from it
        // are copies (same sequence numbers) of entries that are still in the compaction's inputs
        if (!ref::table_decode(bytes, &t, &err)) { rep->count("undecodable_table_at_repair"); continue; }
        for (auto &e : t.entries) {
          ref::IKey ik;
          if (!ref::ikey_parse(e.key, &ik)) continue;
          all[ik.user].push_back(Version{ik.seq, ik.type == 0, e.value, num, false});
        }
      } else if (kind == "log") {
        ref::LogDecode ld = ref::log_decode(bytes);
        for (auto &rec : ld.records) {
          ref::Batch b;
          if (!ref::batch_decode(rec, &b)) continue;
          uint64_t sq = b.seq;
          for (auto &o : b.ops) all[o.key].push_back(Version{sq++, !o.put, o.value, num, true});
        }
      }
    }
    for (auto &p : all) std::sort(p.second.begin(), p.second.end(), [](const Version &a, const Version &b) { return a.seq > b.seq; });
  }

  void op_repair(const Op &op) {
    if (!db) { rep->count("skipped_ops"); return; }
    int variant = op.args.size() ? atoi(op.args[0].c_str()) : 0;
    close_db();
    if (sched_on) sched_quiesce();
    process_trace();
    min_new_number = 0;  // repair itself rewrites MANIFEST-000001 by design
    std::map<std::string, std::vector<Version>> all;
    durable_contents(all);
    ModelMap durable(less);
    bool multi_file_key = false;
    for (auto &p : all) {
      if (!p.second.front().del) durable[p.first] = std::make_shared<const std::string>(p.second.front().value);
      std::set<uint64_t> files;
      for (auto &v : p.second) files.insert(v.file);
      if (files.size() >= 2) multi_file_key = true;
    }
    // The surviving files may hold more than was acknowledged as live: a table that an iterator pinned until close is
    // obsolete but still on disk, and the tombstone that hid its entries may already have been compacted away.  Repair
    // is judged against the files (that is what C19 states), and the history continues from those contents.
    for (auto &p : model) {
      auto it = durable.find(p.first);
      if (it == durable.end() || *it->second != *p.second)
        VF_FAIL("C01", "before repair: the surviving files do not hold the acknowledged value of %s as their newest version", show_key(p.first).c_str());
    }
    if (durable.size() != model.size()) rep->count("repair_resurrects_from_obsolete_table");
    model = durable;
    for (auto &p : durable) universe.insert(p.first);
    uint64_t max_before = 0;
    for (auto &n : list_dir(dir)) { uint64_t num; std::string kind; if (parse_db_filename(n, &num, &kind) && num > max_before) max_before = num; }
    // metadata loss / damage
    std::string cur;
    read_file(dir + "/CURRENT", cur);
    std::string mname = cur.empty() ? "" : cur.substr(0, cur.size() - 1);
    switch (variant % 6) {
      case 0: unlink((dir + "/CURRENT").c_str()); break;
      case 1: if (!mname.empty()) unlink((dir + "/" + mname).c_str()); break;
      case 2: unlink((dir + "/CURRENT").c_str()); if (!mname.empty()) unlink((dir + "/" + mname).c_str()); break;
      case 3: { std::string mb; if (!mname.empty() && read_file(dir + "/" + mname, mb)) write_file(dir + "/" + mname, mb.substr(0, mb.size() / 2)); break; }
      case 4: write_file(dir + "/CURRENT", "MANIFEST-999999\n"); break;
      default: break;  // metadata intact
    }
    opts.build(cfg);
    sched_call_begin();
    int rc = ldb_repair(dir.c_str(), &opts.opt);
    sched_call_end();
    if (rc != LDB_OK) VF_FAIL("C19", "ldb_repair returns %d (metadata variant %d)", rc, variant % 6);
    open_db_tagged("C19", "ldb_open after repair");
    trace_pos = io_trace().size();  // directory operations of repair itself are not iterator-safety events
    summary_cache.clear();
    have_layout = false;
    recently_unlinked.clear();
    // every key has the newest surviving value, for lookups and iterators alike
    Op dummy;
    try {
      check_scan(model, nullptr, "C19");
    } catch (Violation &v) { v.prop = "C19"; v.msg = "after repair: " + v.msg; throw; }
    for (auto &k : universe) {
      ldb_slice_t ks = slice_of(k), val;
      int g = ldb_get(db, &ks, &val, nullptr);
      std::string got;
      bool found = (g == LDB_OK);
      if (found) { got = str_of(val); ldb_free(val.data); }
      else if (g != LDB_NOTFOUND) VF_FAIL("C19", "after repair: get(%s) rc=%d", show_key(k).c_str(), g);
      auto m = model.find(k);
      bool want = m != model.end();
      if (found == want && (!found || got == *m->second)) continue;
      // signature of the known finding: the answer is an OLDER version of k that lives in a higher-numbered
      // table than the one holding the newest version (repair puts every table in level 0, where lookups go by file number)
      auto &vs = all[k];
      bool sig = false;
      if (vs.size() >= 2) {
        uint64_t newest_file = vs.front().file;
        for (size_t i = 1; i < vs.size(); i++) {
          bool same = vs[i].del ? !found : (found && vs[i].value == got);
          if (same && vs[i].file > newest_file) sig = true;
        }
      }
      if (sig && known.count("repair-stale-get-file-order")) { rep->count("known.repair-stale-get-file-order"); poisoned.insert(k); continue; }
      if (sig) throw Violation{"C19:repair-stale-get-file-order", sfmt("after repair get(%s) returns an older version held in a higher-numbered table than the newest one (iterator correct)", show_key(k).c_str())};
      VF_FAIL("C19", "after repair: get(%s) %s, newest surviving version is %s", show_key(k).c_str(), found ? ("returns " + show_val(got)).c_str() : "returns NOTFOUND",
              want ? show_val(*m->second).c_str() : "a deletion");
    }
    min_new_number = max_before;
    was_repaired = true;
    flush_epoch++;
    writes_since_flush = 0;
    rep->count("repairs");
    if (multi_file_key) rep->fp("C19.nt", fnv1a(sfmt("%zu/%d/", universe.size(), variant % 6) + last_layout.str() + std::to_string(max_before)));
    if (multi_file_key) rep->count("class.C19_key_versions_in_2_files");
  }
  uint64_t min_new_number = 0;
  bool was_repaired = false, repaired_l0_unordered = false;

  void open_db_tagged(const char *prop, const char *what) {
    opts.build(cfg);
    sched_call_begin();
    int rc = ldb_open(dir.c_str(), &opts.opt, &db);
    sched_call_end();
    if (rc != LDB_OK) { db = nullptr; VF_FAIL(prop, "%s fails rc=%d", what, rc); }
  }

  // ------------------------------------------------------------------ C20
  struct Backup { std::string path; ModelMap view; };
  std::vector<Backup> backups;
  int backup_seq = 0;

  std::map<std::string, std::string> snapshot_dir_bytes(const std::string &d) {
    std::map<std::string, std::string> m;
    for (auto &n : list_dir(d)) {
      if (n == "LOG" || n == "LOG.old" || n == "LOCK") continue;
      std::string b;
      if (read_file(d + "/" + n, b)) m[n] = b;
    }
    return m;
  }

  void compare_db_with(const std::string &path, const ModelMap &view, const char *what, bool write_probe) {
    DbOptions o2;
    o2.build(cfg);
    o2.opt.create_if_missing = 0;
    ldb_t *d2 = nullptr;
    sched_call_begin();
    int rc = ldb_open(path.c_str(), &o2.opt, &d2);
    sched_call_end();
    if (rc != LDB_OK) VF_FAIL("C20", "%s: cannot be opened as an independent database (rc=%d)", what, rc);
    ldb_t *saved = db;
    db = d2;
    try {
      check_scan(view, nullptr, "C20");
      if (write_probe) {
        std::string k = "zz-written-into-the-copy", v = "x";
        ldb_slice_t ks = slice_of(k), vs = slice_of(v);
        if (ldb_put(d2, &ks, &vs, nullptr) != LDB_OK) VF_FAIL("C20", "%s: the copy is not writable", what);
      }
    } catch (Violation &v) {
      db = saved;
      sched_call_begin(); ldb_close(d2); sched_call_end();
      v.prop = "C20";
      v.msg = std::string(what) + ": " + v.msg;
      throw;
    }
    db = saved;
    sched_call_begin();
    ldb_close(d2);
    sched_call_end();
  }

  void op_backup(const Op &) {
    if (!db) { rep->count("skipped_ops"); return; }
    if (backups.size() >= 3) { rep->count("skipped_ops"); return; }
    Backup b;
    b.path = dir + sfmt(".bak%d", backup_seq++);
    rm_rf(b.path);
    bool nt = writes_since_flush > 0 && have_layout && last_layout.files() >= 1;
    sched_call_begin();
    int rc = ldb_backup(db, b.path.c_str());
    sched_call_end();
    if (rc != LDB_OK) VF_FAIL("C20", "ldb_backup returns %d", rc);
    b.view = model;
    // independently openable, equal to the source at this moment; writing into it must not touch the source
    compare_db_with(b.path, b.view, "backup just taken", true);
    b.view[std::string("zz-written-into-the-copy")] = std::make_shared<const std::string>("x");
    backups.push_back(b);
    // the source is unchanged and usable
    Op dummy;
    for (auto &k : universe) check_get(k, model, nullptr, dummy, "C20");
    { std::string k = "zz-written-into-the-copy"; ldb_slice_t ks = slice_of(k); if (ldb_has(db, &ks, nullptr) == LDB_OK && !model.count(k)) VF_FAIL("C20", "a write into the backup appeared in the source"); }
    rep->count("backups");
    if (nt) backup_nt = true;
    // existing destinations: a second backup to the same name, or to the database's own directory, is either refused or
    // carried out correctly; in no case may it damage what is there
    if (backup_seq % 3 == 0) {
      auto dest_before = snapshot_dir_bytes(b.path);
      sched_call_begin();
      int rc2 = ldb_backup(db, b.path.c_str());
      sched_call_end();
      if (rc2 != LDB_OK && snapshot_dir_bytes(b.path) != dest_before) VF_FAIL("C20", "a second ldb_backup to the same name was refused (rc=%d) but removed or changed the earlier backup's files", rc2);
      compare_db_with(b.path, backups.back().view, "backup after a second ldb_backup to the same name", false);
      rep->count("backups_onto_existing_backup");
    } else if (backup_seq % 3 == 1) {
      if (sched_on) sched_quiesce();
      auto own_before = snapshot_dir_bytes(dir);
      sched_call_begin();
      int rc2 = ldb_backup(db, dir.c_str());
      sched_call_end();
      if (sched_on) sched_quiesce();
      if (snapshot_dir_bytes(dir) != own_before) VF_FAIL("C20", "ldb_backup of a database onto its own directory (rc=%d) removed or changed its files", rc2);
      rep->count("backups_onto_self");
    }
  }
  bool backup_nt = false;

  void op_bcheck() {
    // later source writes never appear in an earlier backup
    for (auto &b : backups) compare_db_with(b.path, b.view, "backup re-opened later", false);
    if (!backups.empty() && backup_nt) c20_nt = true;
  }
  bool c20_nt = false;

  void op_copy(const Op &) {
    if (!db) { rep->count("skipped_ops"); return; }
    std::string to = dir + sfmt(".copy%d", backup_seq++);
    rm_rf(to);
    // copying an open database is refused (options of the open handle must not be rebuilt while it is in use)
    int rc;
    {
      DbOptions o2;
      o2.build(cfg);
      rc = ldb_copy(dir.c_str(), to.c_str(), &o2.opt);
    }
    if (rc == LDB_OK) VF_FAIL("C20", "ldb_copy of an open database succeeded; it must be refused while the lock is held");
    if (file_size(to + "/CURRENT") >= 0) rep->count("refused_copy_left_a_CURRENT_behind");   // untidy, but nothing the statement forbids
    rm_rf(to);
    close_db();
    if (sched_on) sched_quiesce();
    auto before = snapshot_dir_bytes(dir);
    opts.build(cfg);
    // a copy that fails after it has taken the source lock (destination already exists) must release the lock again
    // and leave the source untouched
    // Destinations that already exist.  The statement does not say whether such a copy is refused or carried out; it does say
    // the operation is non-destructive: a refused copy leaves the destination's files and the source as they were, a copy
    // that reports success is a database equal to the source.
    int dv = backup_seq % 4;
    if (dv == 0) {   // an existing empty directory
      mkdir(to.c_str(), 0755);
      rc = ldb_copy(dir.c_str(), to.c_str(), &opts.opt);
      if (snapshot_dir_bytes(dir) != before) VF_FAIL("C20", "ldb_copy onto an existing empty directory modified the source directory");
      if (rc == LDB_OK) compare_db_with(to, model, "copy into an existing empty directory", false);
      rm_rf(to);
      rep->count(rc == LDB_OK ? "copies_into_existing_empty_dir" : "failed_copies");
    } else if (dv == 1) {   // the destination holds an earlier copy
      rc = ldb_copy(dir.c_str(), to.c_str(), &opts.opt);
      if (rc != LDB_OK) VF_FAIL("C20", "ldb_copy of a closed database returns %d", rc);
      auto dest_before = snapshot_dir_bytes(to);
      rc = ldb_copy(dir.c_str(), to.c_str(), &opts.opt);
      if (snapshot_dir_bytes(dir) != before) VF_FAIL("C20", "a second ldb_copy to the same destination modified the source directory");
      if (rc != LDB_OK) {
        if (snapshot_dir_bytes(to) != dest_before) VF_FAIL("C20", "ldb_copy onto an existing database was refused (rc=%d) but removed or changed that database's files", rc);
      }
      compare_db_with(to, model, "earlier copy after a second ldb_copy to the same destination", false);
      ldb_destroy(to.c_str(), &opts.opt);
      rm_rf(to);
      rep->count("copies_onto_existing_database");
    } else if (dv == 2) {   // the source named as its own destination
      rc = ldb_copy(dir.c_str(), dir.c_str(), &opts.opt);
      if (snapshot_dir_bytes(dir) != before) VF_FAIL("C20", "ldb_copy of a database onto its own directory (rc=%d) removed or changed its files", rc);
      rep->count("copies_onto_self");
    }
    rc = ldb_copy(dir.c_str(), to.c_str(), &opts.opt);
    if (rc != LDB_OK) VF_FAIL("C20", "ldb_copy of a closed database returns %d%s", rc, rc == 37 ? " (no locks available: an earlier failed copy did not release the source lock)" : "");
    if (snapshot_dir_bytes(dir) != before) VF_FAIL("C20", "ldb_copy modified the source directory");
    compare_db_with(to, model, "copy of the closed database", true);
    if (snapshot_dir_bytes(dir) != before) VF_FAIL("C20", "writing into the copy modified the source directory");
    ldb_destroy(to.c_str(), &opts.opt);
    rm_rf(to);
    open_db_tagged("C20", "reopening the source after ldb_copy");
    flush_epoch++;
    if (!cfg.reuse) writes_since_flush = 0;
    full_check();
    rep->count("copies");
  }

  // The database's own names, written from the list in the documentation (filename.c header comment and C20's anchors):
  // CURRENT, LOCK, LOG, LOG.old, MANIFEST-[0-9]+, [0-9]+.(log|sst|ldb|dbtmp).  Everything else is foreign.
  static bool is_owned_name(const std::string &n) {
    uint64_t num; std::string kind;
    return n == "CURRENT" || n == "LOCK" || n == "LOG" || n == "LOG.old" || parse_db_filename(n, &num, &kind);
  }
  static bool usable_foreign_name(const std::string &n) {
    if (n.empty() || n.size() > 80 || n == "." || n == ".." || n == "lost" || n == "subdir") return false;
    for (unsigned char ch : n) if (!(isalnum(ch) || ch == '.' || ch == '_' || ch == '-' || ch == '~')) return false;
    // a run of more than 18 digits is left out: whether an overflowing number "parses" is not something the property fixes
    size_t run = 0;
    for (unsigned char ch : n) { run = isdigit(ch) ? run + 1 : 0; if (run > 18) return false; }
    return !is_owned_name(n);
  }
  std::map<std::string, std::string> foreign_files;   // foreign files living next to the database; nothing may touch them

  void add_foreign_from(const Op &op) {
    for (auto &a : op.args) {
      std::string n;
      if (!expand_bytes(a, n) || !usable_foreign_name(n)) continue;
      std::string body = "foreign:" + n;
      if (!write_file(dir + "/" + n, body)) continue;
      foreign_files[n] = body;
      rep->count("foreign_files_placed");
      if (n.compare(0, 3, "LOG") == 0 || n.compare(0, 4, "LOCK") == 0 || n.compare(0, 7, "CURRENT") == 0) rep->count("class.C20_foreign_near_fixed_name");
      else if (n.compare(0, 8, "MANIFEST") == 0) rep->count("class.C20_foreign_near_manifest_name");
      else if (isdigit((unsigned char)n[0])) rep->count("class.C20_foreign_near_numbered_name");
    }
  }
  void verify_foreign(const char *after) {
    for (auto &f : foreign_files) {
      std::string b;
      if (!read_file(dir + "/" + f.first, b)) VF_FAIL("C20", "the foreign file %s disappeared from the database directory (%s)", f.first.c_str(), after);
      if (b != f.second) VF_FAIL("C20", "the foreign file %s was modified (%s)", f.first.c_str(), after);
    }
  }
  void op_foreign(const Op &op) {
    if (!db) { rep->count("skipped_ops"); return; }
    verify_foreign("before placing more");
    add_foreign_from(op);
  }

  void op_destroy(const Op &op) {
    if (!db) { rep->count("skipped_ops"); return; }
    close_db();
    if (sched_on) sched_quiesce();
    verify_foreign("after ldb_close");
    // foreign files that destroy must leave alone: a fixed set plus the generated near-misses of the owned name forms
    { Op fixed; fixed.args = {"tnotes.txt", "t000001.txt", "tMANIFEST-abc", "tCURRENT.bak", "t7.ldbx"}; add_foreign_from(fixed); }
    add_foreign_from(op);
    mkdir((dir + "/subdir").c_str(), 0755);
    write_file(dir + "/subdir/000005.ldb", "a table-like name inside a foreign directory");
    opts.build(cfg);
    int rc = ldb_destroy(dir.c_str(), &opts.opt);
    if (rc != LDB_OK) VF_FAIL("C20", "ldb_destroy returns %d", rc);
    for (auto &n : list_dir(dir)) {
      if (is_owned_name(n)) VF_FAIL("C20", "ldb_destroy left the database file %s behind", n.c_str());
    }
    verify_foreign("after ldb_destroy");
    { std::string b; if (!read_file(dir + "/subdir/000005.ldb", b)) VF_FAIL("C20", "ldb_destroy removed a file inside a foreign sub-directory"); }
    foreign_files.clear();
    // clean up the foreign files ourselves and start afresh
    rm_rf(dir);
    model.clear();
    universe.clear();
    write_epoch.clear();
    first_write_epoch.clear();
    pending_tomb.clear();
    created_numbers_tables.clear();
    summary_cache.clear();
    have_layout = false;
    recently_unlinked.clear();
    min_new_number = 0;
    was_repaired = false;
    repaired_l0_unordered = false;
    poisoned.clear();
    open_db_tagged("C20", "re-creating the database after ldb_destroy");
    trace_pos = io_trace().size();
    writes_since_flush = 0;
    rep->count("destroys");
  }

  // Runs this binary again as a fresh process in the given helper mode; returns its exit code (-1: abnormal end).
  int run_helper(const char *mode) {
    fflush(stdout);
    pid_t pid = fork();
    if (pid == 0) {
      sched_detach_child();
      char exe[4096];
      ssize_t n = readlink("/proc/self/exe", exe, sizeof exe - 1);
      if (n <= 0) _exit(0);
      exe[n] = 0;
      execl(exe, exe, mode, dir.c_str(), "--cmp", cfg.cmp.c_str(), (char *)nullptr);
      _exit(0);
    }
    int st = 0;
    waitpid(pid, &st, 0);
    if (!WIFEXITED(st)) { rep->count("helper_child_abnormal"); return -1; }
    return WEXITSTATUS(st);
  }
  // "The lock is released on close or failed open": with no handle open in this process, another process must be able to
  // take the directory's LOCK.  The helper only locks and unlocks the LOCK file (lcdb's own ldb_lock_file in a fresh
  // process); it does not open the database, so the directory stays as this process left it.
  void expect_lock_free(const char *after) {
    if (!cfg_lock_probes) return;
    int rc = run_helper("--locktest");
    if (rc == 0) VF_FAIL("C20", "after %s the directory's LOCK cannot be taken by another process: the lock was not released", after);
    if (rc == 7) rep->count("cross_process_lock_release_probes");
  }
  int lockprobe_seq = 0;
  bool cfg_lock_probes = true;    // the probes sit in C20's own operations only (each is a fork + exec)

  void op_lockprobe() {
    if (!db) { rep->count("skipped_ops"); return; }
    // while the handle is open another process must find the LOCK taken
    if (run_helper("--locktest") == 7) VF_FAIL("C20", "another process could take the LOCK of an open database");
    // ldb_destroy of the open database: whatever it answers, it must not weaken the lock or touch the files when it refuses
    if (lockprobe_seq++ % 2 == 0) {
      if (sched_on) sched_quiesce();
      struct stat st0, st1;
      bool had = stat((dir + "/LOCK").c_str(), &st0) == 0;
      auto files_before = snapshot_dir_bytes(dir);
      DbOptions o3;
      o3.build(cfg);
      sched_call_begin();
      int drc = ldb_destroy(dir.c_str(), &o3.opt);
      sched_call_end();
      if (drc != LDB_OK) {
        if (sched_on) sched_quiesce();
        if (snapshot_dir_bytes(dir) != files_before) VF_FAIL("C20", "a refused ldb_destroy (rc=%d) of the open database removed or changed its files", drc);
        bool has = stat((dir + "/LOCK").c_str(), &st1) == 0;
        if (had && (!has || st0.st_ino != st1.st_ino)) VF_FAIL("C20", "a refused ldb_destroy (rc=%d) removed or replaced the LOCK file that the open handle holds", drc);
        if (run_helper("--locktest") == 7) VF_FAIL("C20", "after a refused ldb_destroy another process could take the LOCK of the open database");
        rep->count("refused_destroys_of_open_database");
      }
    }
    // same process, second handle
    DbOptions o2;
    o2.build(cfg);
    ldb_t *d2 = nullptr;
    sched_call_begin();
    int rc = ldb_open(dir.c_str(), &o2.opt, &d2);
    sched_call_end();
    if (rc == LDB_OK) { sched_call_begin(); ldb_close(d2); sched_call_end(); VF_FAIL("C20", "a second ldb_open of the open directory succeeded in the same process"); }
    // another process: a fresh image (fork + exec of this binary in --lockprobe mode), because a forked child would
    // inherit lcdb's in-memory table of locked files and be refused by that table rather than by the file lock.
    // The probe comes after the refused same-process open on purpose: that refusal must not weaken the lock.
    int hrc = run_helper("--lockprobe");
    if (hrc == 7) VF_FAIL("C20", "ldb_open of the open directory succeeded from another process (after a refused second open in this process)");
    if (hrc != 0) rep->count("lockprobe_child_abnormal");
    // the first handle still works
    Op dummy;
    int n = 0;
    for (auto &k : universe) { check_get(k, model, nullptr, dummy, "C20"); if (++n > 10) break; }
    rep->count("lockprobes");
  }

  void op_badopen(const Op &op) {
    if (!db) { rep->count("skipped_ops"); return; }
    int variant = op.args.size() ? atoi(op.args[0].c_str()) : 0;
    close_db();
    if (sched_on) sched_quiesce();
    expect_lock_free("ldb_close");
    auto before = snapshot_dir_bytes(dir);
    DbOptions o2;
    DbConfig c2 = cfg;
    std::string what;
    if (variant % 3 == 0) { o2.build(c2); o2.opt.error_if_exists = 1; what = "error_if_exists"; }
    else if (variant % 3 == 1) { c2.cmp = (cfg.cmp == "reverse") ? "lenfirst" : "reverse"; o2.build(c2); what = "comparator mismatch"; }
    else { o2.build(c2); o2.opt.create_if_missing = 0; what = "create_if_missing=0 on a missing directory"; }
    ldb_t *d2 = nullptr;
    std::string target = (variant % 3 == 2) ? dir + ".missing" : dir;
    sched_call_begin();
    int rc = ldb_open(target.c_str(), &o2.opt, &d2);
    sched_call_end();
    if (rc == LDB_OK) {
      sched_call_begin(); ldb_close(d2); sched_call_end();
      // only the comparator clause is part of C20's statement; error_if_exists / create_if_missing serve here as ways to
      // obtain a failed open (for the lock-release clause), their own semantics are not this property's business
      if (variant % 3 == 1) VF_FAIL("C20", "ldb_open with %s succeeded; it must be refused", what.c_str());
      rep->count("failed_open_variant_unexpectedly_succeeded");
      if (variant % 3 == 2) rm_rf(target);
      if (sched_on) sched_quiesce();
      open_db_tagged("C20", "reopening after an open that was expected to fail");
      flush_epoch++;
      if (!cfg.reuse) writes_since_flush = 0;
      full_check();
      return;
    }
    if (variant % 3 == 2) rm_rf(target);
    if (sched_on) sched_quiesce();
    if (snapshot_dir_bytes(dir) != before) VF_FAIL("C20", "a refused ldb_open (%s) modified the database files", what.c_str());
    expect_lock_free(("a refused ldb_open (" + what + ")").c_str());
    // the lock is released after the failed open: a correct open succeeds, from this process and from another
    open_db_tagged("C20", ("correct ldb_open after a failed open (" + what + ")").c_str());
    flush_epoch++;
    if (!cfg.reuse) writes_since_flush = 0;
    full_check();
    rep->count("failed_opens");
    c20_failed_open = true;
  }
  bool c20_failed_open = false;

  void note_tomb_flushed() {
    if (!pending_tomb.empty()) { had_tomb_above = true; pending_tomb.clear(); }
  }

  void final_checks() {
    if (!db) return;
    full_check();
    op_bcheck();
    final_pass = true;
    structural_check(false);
    for (auto &p : iters) {
      // every live iterator still reports OK
      int st = ldb_iter_status(p.second.h);
      if (st != LDB_OK) VF_FAIL("C07", "live iterator %d status rc=%d at end of history", p.first, st);
    }
  }
};

}  // namespace vf

#endif
