// lcdb-facing helpers built on the public header only: option construction
// from a case's config line, harness comparators, slices, the model map.
#ifndef VF_LC_H
#define VF_LC_H

#include <stdint.h>
#include <string.h>

#include <map>
#include <memory>
#include <string>

extern "C" {
#include <lcdb.h>
/* internal test entry points (declared in src/db_impl.h) */
int ldb_test_compact_memtable(ldb_t *db);
void ldb_test_compact_range(ldb_t *db, int level, const ldb_slice_t *begin, const ldb_slice_t *end);
/* the environment's file lock (declared in src/util/env.h), used by the cross-process lock helper */
typedef struct ldb_filelock_s ldb_filelock_t;
int ldb_lock_file(const char *filename, ldb_filelock_t **lock);
int ldb_unlock_file(ldb_filelock_t *lock);
}

#include "case.h"

namespace vf {

inline ldb_slice_t slice_of(const std::string &s) {
  ldb_slice_t x;
  x.data = (void *)s.data();
  x.size = s.size();
  x.dummy = 0;
  return x;
}

inline std::string str_of(const ldb_slice_t &s) { return std::string((const char *)s.data, s.size); }

// ---- comparators (the model uses the same order through Cmp) ---------------
enum CmpKind { CMP_BYTEWISE = 0, CMP_REVERSE, CMP_CLONE, CMP_LENFIRST };

inline int cmp_bytes(const void *a, size_t an, const void *b, size_t bn) {
  size_t n = an < bn ? an : bn;
  int r = n ? memcmp(a, b, n) : 0;
  if (r) return r;
  return an < bn ? -1 : (an > bn ? 1 : 0);
}

inline int cmp_apply(CmpKind k, const void *a, size_t an, const void *b, size_t bn) {
  switch (k) {
    case CMP_REVERSE: return -cmp_bytes(a, an, b, bn);
    case CMP_LENFIRST:
      if (an != bn) return an < bn ? -1 : 1;
      return cmp_bytes(a, an, b, bn);
    default: return cmp_bytes(a, an, b, bn);
  }
}

extern "C" {
static int vf_cmp_reverse(const ldb_comparator_t *, const ldb_slice_t *x, const ldb_slice_t *y) {
  return vf::cmp_apply(vf::CMP_REVERSE, x->data, x->size, y->data, y->size);
}
static int vf_cmp_clone(const ldb_comparator_t *, const ldb_slice_t *x, const ldb_slice_t *y) {
  return vf::cmp_apply(vf::CMP_BYTEWISE, x->data, x->size, y->data, y->size);
}
static int vf_cmp_lenfirst(const ldb_comparator_t *, const ldb_slice_t *x, const ldb_slice_t *y) {
  return vf::cmp_apply(vf::CMP_LENFIRST, x->data, x->size, y->data, y->size);
}
// callbacks that do nothing are correct per comparator.h
static void vf_sep_noop(const ldb_comparator_t *, ldb_slice_t *, const ldb_slice_t *) {}
static void vf_succ_noop(const ldb_comparator_t *, ldb_slice_t *) {}
}

inline CmpKind cmp_kind_of(const std::string &name) {
  if (name == "reverse") return CMP_REVERSE;
  if (name == "clone") return CMP_CLONE;
  if (name == "lenfirst") return CMP_LENFIRST;
  return CMP_BYTEWISE;
}

// Fill *out with a harness comparator; returns NULL for the built-in one.
inline const ldb_comparator_t *make_comparator(CmpKind k, ldb_comparator_t *out) {
  memset(out, 0, sizeof *out);
  switch (k) {
    case CMP_REVERSE:
      out->name = "vf.reverse"; out->compare = vf_cmp_reverse;
      return out;
    case CMP_CLONE:
      out->name = "vf.bytewise-clone"; out->compare = vf_cmp_clone;
      out->shortest_separator = vf_sep_noop; out->short_successor = vf_succ_noop;
      return out;
    case CMP_LENFIRST:
      out->name = "vf.lenfirst"; out->compare = vf_cmp_lenfirst;
      return out;
    default:
      return nullptr;
  }
}

struct KeyLess {
  CmpKind kind = CMP_BYTEWISE;
  bool operator()(const std::string &a, const std::string &b) const {
    return cmp_apply(kind, a.data(), a.size(), b.data(), b.size()) < 0;
  }
};

typedef std::shared_ptr<const std::string> ValPtr;
typedef std::map<std::string, ValPtr, KeyLess> ModelMap;

// ---- configuration ---------------------------------------------------------
struct DbConfig {
  size_t wbs = 64 << 10;
  size_t bs = 4096;
  int ri = 16;
  size_t mfs = 2 << 20;
  int comp = 1;
  int bloom = 0;
  std::string cache = "default";  // default | tiny | zero
  int mof = 1000;
  int mmap = 1;
  int reuse = 0;
  int paranoid = 0;
  std::string cmp = "bytewise";

  void apply(const Op &op) {
    if (op.has("wbs")) wbs = (size_t)op.geti("wbs");
    if (op.has("bs")) bs = (size_t)op.geti("bs");
    if (op.has("ri")) ri = (int)op.geti("ri");
    if (op.has("mfs")) mfs = (size_t)op.geti("mfs");
    if (op.has("comp")) comp = (int)op.geti("comp");
    if (op.has("bloom")) bloom = (int)op.geti("bloom");
    if (op.has("cache")) cache = op.get("cache");
    if (op.has("mof")) mof = (int)op.geti("mof");
    if (op.has("mmap")) mmap = (int)op.geti("mmap");
    if (op.has("reuse")) reuse = (int)op.geti("reuse");
    if (op.has("paranoid")) paranoid = (int)op.geti("paranoid");
    if (op.has("cmp")) cmp = op.get("cmp");
    if (ri < 1) ri = 1;
  }
};

// Owns the objects an ldb_dbopt_t points to.
struct DbOptions {
  ldb_dbopt_t opt;
  ldb_comparator_t cmp_storage;
  ldb_bloom_t *bloom = nullptr;
  ldb_lru_t *cache = nullptr;

  DbOptions() { opt = *ldb_dbopt_default; }
  ~DbOptions() { clear(); }
  DbOptions(const DbOptions &) = delete;
  DbOptions &operator=(const DbOptions &) = delete;

  void clear() {
    if (bloom) { ldb_bloom_destroy(bloom); bloom = nullptr; }
    if (cache) { ldb_lru_destroy(cache); cache = nullptr; }
  }

  void build(const DbConfig &c) {
    clear();
    opt = *ldb_dbopt_default;
    opt.create_if_missing = 1;
    opt.write_buffer_size = c.wbs;
    opt.block_size = c.bs;
    opt.block_restart_interval = c.ri;
    opt.max_file_size = c.mfs;
    opt.compression = c.comp ? LDB_SNAPPY_COMPRESSION : LDB_NO_COMPRESSION;
    opt.max_open_files = c.mof;
    opt.use_mmap = c.mmap;
    opt.reuse_logs = c.reuse;
    opt.paranoid_checks = c.paranoid;
    opt.comparator = make_comparator(cmp_kind_of(c.cmp), &cmp_storage);
    if (c.bloom > 0) { bloom = ldb_bloom_create(c.bloom); opt.filter_policy = bloom; }
    else opt.filter_policy = nullptr;
    if (c.cache == "tiny") { cache = ldb_lru_create(2048); opt.block_cache = cache; }
    else if (c.cache == "zero") { cache = ldb_lru_create(0); opt.block_cache = cache; }
    else opt.block_cache = nullptr;
  }
};

}  // namespace vf

#endif
