"""Entry point: argument handling and dispatch to the per-property check specs."""
import glob, json, os, sys, time

import build, runner, props


def usage():
    sys.stderr.write("usage: check <ID> [--tier quick|thorough] [--seed N] [--replay FILE] | --setup | --list\n")
    return 2


def main(argv):
    if not argv:
        return usage()
    if argv[0] == "--list":
        for p in sorted(props.SPECS):
            print(p, props.SPECS[p].get("engine"))
        return 0
    if argv[0] == "--setup":
        return props.setup()
    prop = argv[0]
    tier = os.environ.get("VERIF_TIER", "quick")
    seed = int(os.environ.get("VERIF_SEED", "1") or "1")
    replay = None
    i = 1
    while i < len(argv):
        a = argv[i]
        if a == "--tier":
            tier = argv[i + 1]; i += 2
        elif a == "--seed":
            seed = int(argv[i + 1]); i += 2
        elif a == "--replay":
            replay = argv[i + 1]; i += 2
        else:
            sys.stderr.write("unknown argument %s\n" % a)
            return 2
    if prop not in props.SPECS:
        sys.stderr.write("unknown property %s\n" % prop)
        return 2
    if tier not in ("quick", "thorough"):
        tier = "quick"
    spec = props.SPECS[prop]
    if replay:
        return props.replay_one(prop, spec, replay)
    return spec["run"](prop, spec, tier, seed)
