#!/usr/bin/python3
"""Regenerates /verif/MANIFEST.json from the tables below (run by hand, result committed)."""
import json, os, sys

VERIF = os.path.dirname(os.path.dirname(os.path.abspath(__file__)))

ENGINES = [
    {"name": "fuzz", "path": "vf/fuzz/fuzz.cc", "serves_properties": ["C18"],
     "kind_free_text": "coverage-guided libFuzzer targets for every decoder entry point and a structure-aware whole-database target, ASan+UBSan, NDEBUG and assertion builds"},
    {"name": "corrupt", "path": "vf/engines/corrupt.cc", "serves_properties": ["C11"],
     "kind_free_text": "single-fault enumeration over the bytes of generated closed databases (bit flips, 0x00/0xFF, truncation, sector zeroing), re-opened paranoid and read with checksum verification"},
    {"name": "race", "path": "vf/engines/race.cc", "serves_properties": ["C10"],
     "kind_free_text": "generated multi-threaded programs on real threads with seeded delay injection under ThreadSanitizer and AddressSanitizer"},
    {"name": "fault", "path": "vf/engines/fault.cc", "serves_properties": ["C12"],
     "kind_free_text": "fault enumeration: each generated history is re-executed once per intercepted system call (every call when few, sampled otherwise) with that call failing "
                       "(ENOSPC/EIO/EMFILE/ENOENT, one-shot, persistent or short write); marker-key oracle after close+reopen and after kill+reopen with the fault cleared"},
    {"name": "conc", "path": "vf/engines/conc.cc", "serves_properties": ["C08", "C09", "C04", "C20"],
     "kind_free_text": "schedule exploration: generated multi-threaded programs on a deterministic baton scheduler (random, PCT, starved/eager extremes, bounded-exhaustive DFS with "
                       "preemption bound for tiny programs); linearizability search + register/cut-consistency oracles; deadlock and lost-wake-up detection"},
    {"name": "crash", "path": "vf/engines/crash.cc", "serves_properties": ["C02", "C03", "C05", "C17"],
     "kind_free_text": "fault enumeration over recorded I/O traces: generated write histories recorded at system-call granularity, replayed through a "
                       "file-system model that implements exactly C02's crash model; every state-changing call boundary x {minimal, maximal, directory-ahead, "
                       "data-ahead, torn, sampled} images materialised and reopened by the real code"},
    {"name": "codec", "path": "vf/engines/codec.cc", "serves_properties": ["C15", "C16", "C17"],
     "kind_free_text": "round-trip / differential property testing of log framing, CRC-32C, table files, Snappy, separators, version edits and varints against "
                       "independent reference codecs (vf/ref/ref.h), with exhaustive sub-spaces (separators over short strings, varint32)"},
    {"name": "hist", "path": "vf/engines/hist.cc", "serves_properties": ["C01", "C06", "C07", "C13", "C14", "C15", "C17", "C19", "C20"],
     "kind_free_text": "model-based stateful property testing: rapidcheck-generated operation histories interpreted against lcdb and a "
                       "sorted-map model on a deterministic baton scheduler, with directory operations recorded and every reported table "
                       "decoded by an independent reader"},
]

TRUST = ("Trusted: the harness (scheduler, I/O interposition, reference model and reference decoders in /verif/vf), clang 14 sanitizers, "
         "tmpfs semantics of /dev/shm. lcdb is compiled unmodified from /repo's working tree on every run.")

CHECKS = {
    "C01": dict(engine="hist", cat="exploration", ref="3/C01",
                technique="model-based stateful property testing (rapidcheck histories vs sorted-map model)",
                text="Generated histories of put/del/batch/get/has/flush/per-level compaction/compact-all/reopen over colliding keys, values "
                     "0 B..70 KiB (to 1.2 MiB in the thorough tier) and random option configurations are executed against the real library and "
                     "a sorted-map model; every write is read back, and full read-backs plus scans run at checkpoints and after every reopen. "
                     "Exploration only: absence of divergence over the explored histories, not proof."),
    "C06": dict(engine="hist", cat="exploration", ref="3/C06",
                technique="model-based stateful property testing with frozen model copies per snapshot",
                text="Same engine, generator weighted towards snapshots (0..5 live at once), snapshot gets/iterators issued long after, across "
                     "flushes and compaction of every level; each snapshot read is compared with the model copy frozen at ldb_snapshot time."),
    "C07": dict(engine="hist", cat="exploration", ref="3/C07",
                technique="model-based stateful property testing: iterator vs cursor over frozen model after every call",
                text="Same engine, generator weighted towards iterator call sequences (first/last/seek/seek_ge/gt/le/lt/next/prev with direction "
                     "changes) over states spread across memtable, level-0 files and deeper levels; after every call valid/key/value/status are "
                     "compared with a cursor over the frozen model; forward and backward full scans are compared at checkpoints."),
    "C13": dict(engine="hist", cat="exploration", ref="3/C13",
                technique="stateful property testing with recorded directory operations and directory-listing invariant at quiescent points",
                text="Same engine with the I/O layer recording unlink/create calls: a table unlinked or re-created while pinned by a live iterator "
                     "or present in the next quiescent layout is a violation; after flush/compact/reopen with no iterator alive the directory must "
                     "contain exactly CURRENT, LOCK, LOG[.old], one MANIFEST, one log and the layout's tables."),
    "C14": dict(engine="hist", cat="exploration", ref="3/C14",
                technique="stateful property testing; reported layout cross-checked against an independent table decoder",
                text="Same engine: after every structural change leveldb.sstables is parsed; every listed file must exist with the stated size, decode "
                     "with the reference reader into a strictly increasing internal-key run whose ends equal the stated bounds; levels >=1 sorted and "
                     "disjoint; per user key, shallower levels / newer level-0 files hold strictly newer sequences; flush+close+reopen reproduces the layout."),
    "C02": dict(engine="crash", cat="fault_enumeration", ref="3/C02",
                technique="crash-point enumeration over recorded syscall traces of generated histories; crash images per C02's model; marker-key oracle",
                text="Every state-changing system-call boundary of each generated, recorded history (foreground writer and background compaction interleaved by the "
                     "deterministic scheduler) is a crash point; per point the minimal, maximal, directory-ahead, data-ahead, torn-last-write and sampled images "
                     "allowed by the stated crash model are materialised and opened by the real code. Required: every batch acknowledged with sync, and every "
                     "acknowledged batch whose log has been unlinked, is present. Exhaustive over the boundaries of each explored trace when affordable, sampled "
                     "(all directory/sync points first) otherwise; images canonical + sampled, not all."),
    "C03": dict(engine="crash", cat="fault_enumeration", ref="3/C03",
                technique="kill-point enumeration over recorded syscall traces; byte-exact process-kill image; marker-key oracle",
                text="Same recorded histories; the image at each kill point is the byte-exact replay of the trace prefix. Required: all acknowledged batches present, "
                     "at most one unacknowledged (in-flight) batch, contents equal the fold of the surviving batches in log order, nothing else."),
    "C05": dict(engine="crash", cat="fault_enumeration", ref="3/C05",
                technique="crash-image enumeration + recovery, follow-up workload and second open on every image",
                text="Every image of the C02/C03 enumeration must open with LDB_OK; surviving batches form a prefix of every log segment; contents equal their fold; "
                     "point lookups agree with scans; follow-up writes after recovery win, persist across close and a second open; the second open loses nothing; "
                     "tables named by the image's MANIFEST are never rewritten by recovery."),
    "C15": dict(engine="codec", cat="exploration", ref="3/C15",
                technique="round-trip and differential property testing against an independent log encoder/decoder and a bitwise CRC-32C; model-based histories over the real file layer with short reads/writes and EINTR",
                text="Generated record-length sequences (block/fragment boundary lengths, random up to 200 KiB / 1 MiB), prefix logs for the reuse path, truncation "
                     "sweeps and byte alterations; lcdb's writer bytes must equal the reference encoder's, both readers must return the records, a cut yields exactly "
                     "the records before it silently, alterations yield a subsequence with later intact blocks delivered and losses reported; CRC-32C equals the bitwise "
                     "reference on both the table-driven and the hardware path. One known finding (zeroed header skipped silently) is excluded by signature. A second part drives "
                     "the same framing through the real file layer: write-heavy model-checked histories with frequent reopen (recovery, log reuse at arbitrary offsets) while "
                     "intercepted read/write calls return short counts and EINTR (legal POSIX outcomes); everything written must read back identically."),
    "C16": dict(engine="codec", cat="exploration", ref="3/C16",
                technique="round-trip and differential property testing against an independent table reader, Snappy decoder and bloom hash; exhaustive separators on short strings",
                text="Generated tables under random options are built with the real builder, read with the real reader (iteration both ways, seeks, lookups of present and "
                     "absent keys) and decoded by the reference reader, which also checks block CRCs, restart arrays, index-key bounds and that the reference bloom accepts "
                     "every key; Snappy round-trips and differential decoding of damaged streams; separator/successor contract exhaustive over strings of length <=3/4 on five bytes."),
    "C17": dict(engine="codec", cat="exploration", ref="3/C17",
                technique="round-trip/differential testing of version edits and varints against a reference codec; MANIFEST replay vs reported layout over real histories; roll-over crash images",
                text="Three parts: (1) generated edits exported, compared byte-for-byte with the reference encoding, decoded by the reference, re-imported, and imported from "
                     "permuted reference encodings; varint32 exhaustive near every 2^(7k) (all 2^32 in the thorough tier); (2) over generated histories the MANIFEST named by "
                     "CURRENT, replayed by the reference decoder, must reproduce the reported file set and counters at every quiescent point; (3) on crash images around "
                     "MANIFEST roll-over CURRENT must end in a newline and name a MANIFEST that the reference decodes, and open must succeed."),
    "C12": dict(engine="fault", cat="fault_enumeration", ref="3/C12",
                technique="system-call fault injection enumerated over the intercepted calls of generated histories; model with indeterminate failed writes; close/kill + reopen oracle",
                text="For each generated history the eligible intercepted calls are counted in a fault-free run, then the history is re-run with the k-th call failing (every k for short traces, "
                     "a seeded sample otherwise) with ENOSPC/EIO/EMFILE/ENOENT, one-shot, persistent or short-write. No crash/abort/deadlock; a write during which a log write or sync failed "
                     "does not return OK; reads return a value some acknowledged-or-failed write produced, or an error after the fault; after clearing the fault both the closed database and the "
                     "kill image reopen, hold every acknowledged batch whole, and accept writes."),
    "C08": dict(engine="conc", cat="exploration", ref="3/C08",
                technique="schedule exploration on a deterministic scheduler + Wing-Gong linearizability search and register/snapshot-cut checks",
                text="Generated programs of 2..5 (8) threads run under harness-owned schedules (random, PCT, extremes; several schedules per program; bounded-exhaustive enumeration with preemption "
                     "bound 2 for tiny programs). Histories of <=14 operations get a complete linearizability search against a sequential map; all histories get single-writer register freshness "
                     "and monotonicity checks, snapshot/scan views closed under program order, and a final-state check. Exploration: no claim beyond the schedules run."),
    "C09": dict(engine="conc", cat="exploration", ref="3/C09",
                technique="schedule exploration on a deterministic scheduler with exact deadlock detection and per-call step bounds",
                text="Same engine biased to blocking paths (full write buffer with pending immutable memtable, many level-0 files, queued writers, flush/compaction from several threads, starved "
                     "background thread, spurious wake-ups). A reachable state with unfinished threads and none runnable, a call exceeding its step bound, or a thread left blocked after close is a violation."),
    "C04": dict(engine="crash", cat="exploration", ref="3/C04",
                technique="crash-image enumeration with two marker keys per batch (fault enumeration) + schedule exploration with whole-group snapshot reads",
                text="Two parts; the weaker level is claimed. (a) crash side: batches of 2..400 (2000) updates spanning several log blocks, every crash point and image of the C02 enumeration plus torn "
                     "cuts; first and last marker of each batch must both be present or both absent and contents must equal the fold of whole batches. (b) concurrent side: writers set their key "
                     "group to one fresh token per batch while readers snapshot-read or scan whole groups under explored schedules; a view must reflect whole batches in program order."),
    "C19": dict(engine="hist", cat="exploration", ref="3/C19",
                technique="model-based stateful property testing with repair operations; oracle = independent decode of all surviving files",
                text="Generated histories with repair operations at arbitrary points: after close, the newest version per key is computed from every surviving table and log with the reference "
                     "decoders, metadata is removed or damaged in six ways, ldb_repair and ldb_open must succeed, ldb_get of every key and scans in both directions must equal the durable contents, "
                     "follow-up writes must win and new files must take fresh numbers. One open known finding (stale ldb_get when an older version lives in a higher-numbered table) is excluded by signature."),
    "C20": dict(engine="hist", cat="exploration", ref="3/C20",
                technique="model-based stateful property testing with lifecycle operations (backup, copy, destroy, lock probes, refused opens)",
                text="Generated histories with backup/copy/destroy/lock-probe/refused-open operations at arbitrary points; backups and copies are opened as independent databases and compared with the "
                     "model at the moment they were taken, again after later source writes, and written to without affecting the source; byte-level directory snapshots show that refused opens and "
                     "copies modify nothing and that destroy leaves foreign files alone; the lock is probed from the same process and from a forked child. A third part runs backups concurrently with writer threads on the deterministic scheduler and judges each backup as a point in the batch order."),
    "C10": dict(engine="race", cat="exploration", ref="3/C10",
                technique="generated concurrent workloads on real threads with delay injection; oracle = ThreadSanitizer / AddressSanitizer reports",
                text="Generated programs of 3..5 (8) threads x 10..40 operations (writes, reads, held snapshots, per-thread iterators, flush, manual compaction, properties, approximate sizes, backup) "
                     "run on real threads with seeded delays at lock and system-call sites, under ThreadSanitizer (primary) and AddressSanitizer. Any report is a violation; a report is replayed with other "
                     "delay seeds and the reproducing case is kept, otherwise the report itself. Dynamic detection: only executed access pairs are judged."),
    "C11": dict(engine="corrupt", cat="fault_enumeration", ref="3/C11",
                technique="byte-level single-fault enumeration over generated databases; oracle = model answer or error status, scans judged as (entries, status)",
                text="Generated small multi-level databases are closed; each chosen (file, offset, alteration) is applied, the database reopened with paranoid checks and read with checksum "
                     "verification through fresh caches, judged and restored. Tables: a lookup returns the model's answer or an error, never a wrong value, never NOTFOUND for a live key; a scan "
                     "with final status OK equals the model exactly. Log/MANIFEST/CURRENT: every present value was written for that key and batches are whole. Quick tier covers all structural "
                     "table bytes plus samples; the thorough tier enumerates every byte of small files."),
    "C18": dict(engine="fuzz", cat="exploration", ref="3/C18",
                technique="coverage-guided fuzzing (libFuzzer) of every decoder entry point and of whole-database operations on structurally damaged directories, under ASan/UBSan",
                text="Nine libFuzzer targets (block iterator, filter, Snappy with differential reference decode, version edit, write batch, log reader, table file incl. the dump tool, file names, "
                     "whole database: open/get/scan/compact/write/repair/dump on a valid directory damaged at field level) run from seeded and empty corpora with the shipped NDEBUG semantics and "
                     "with assertions on. A sanitizer report, abort, reachable assertion, semantic-oracle trap or an input that does not return standalone within 90 s is a violation."),
}

NOT_APPLICABLE = []


def main():
    checks = []
    for pid in sorted(CHECKS):
        c = CHECKS[pid]
        checks.append({
            "property_id": pid,
            "quick_cmd": "./check %s --tier quick" % pid,
            "thorough_cmd": "./check %s --tier thorough" % pid,
            "evidence_file": "evidence/%s.json" % pid,
            "replay_cmd_template": "./check %s --replay {path}" % pid,
            "engine": c["engine"],
            "level_claimed": {"category": c["cat"], "text": c["text"], "design_ref": "DESIGN.md section " + c["ref"]},
            "level_note": TRUST,
            "technique": c["technique"],
        })
    claimed = set(CHECKS)
    allp = [json.loads(l)["id"] for l in open(os.path.join(VERIF, "properties.jsonl")) if l.strip()]
    na = list(NOT_APPLICABLE)
    listed = set(x["property_id"] for x in na)
    for p in allp:
        if p not in claimed and p not in listed:
            na.append({"property_id": p, "reason": "check not registered yet in this revision (engine under construction; see DESIGN.md section 7 build order)"})
    m = {
        "version": 1,
        "setup_cmd": "./check --setup",
        "hooks": {
            "guard": "LCDB_VERIF",
            "enable": "none needed: checks compile /repo unmodified and interpose at link time (-Wl,--wrap on libc I/O calls and pthread "
                      "primitives); the guard name is reserved and unused",
            "baseline_off_cmd": "cmake --build /repo/_build && ctest --test-dir /repo/_build -j8 --timeout 900",
            "source_commits": [],
            "add_only": True,
        },
        "engines": ENGINES,
        "checks": checks,
        "not_applicable": na,
        "notes": "All checks: ./check <ID> --tier quick|thorough (VERIF_SEED, VERIF_TIER, VERIF_REPO, VERIF_BUDGET_S honoured). Design in DESIGN.md; "
                 "known findings in known_findings.json; seeded breakages in seeded/.",
    }
    with open(os.path.join(VERIF, "MANIFEST.json"), "w") as f:
        json.dump(m, f, indent=1)
        f.write("\n")
    print("MANIFEST.json: %d checks, %d not_applicable" % (len(checks), len(na)))


if __name__ == "__main__":
    main()
