"""Flavour builds of lcdb (from $VERIF_REPO's working tree) and of the harness."""
import hashlib, os, subprocess, sys, glob, json, time
from concurrent.futures import ThreadPoolExecutor

VERIF = os.path.dirname(os.path.dirname(os.path.abspath(__file__)))
REPO = os.environ.get("VERIF_REPO", "/repo")
BUILD = os.path.join(VERIF, "build")
if os.path.realpath(REPO) != "/repo":
    # sensitivity runs against a scratch mutated copy get their own object cache
    BUILD = os.path.join(VERIF, "build", "alt-" + hashlib.sha1(os.path.realpath(REPO).encode()).hexdigest()[:10])
JOBS = int(os.environ.get("VERIF_JOBS", "16"))

# mirrors the pinned CMake configuration (build.ninja: -DLDB_PTHREAD -D_GNU_SOURCE)
LCDB_DEFS = ["-D_GNU_SOURCE", "-DLDB_PTHREAD"]

# pointer-overflow is excluded: clang 14 folds "NULL + 0" (benign, e.g. an empty never-allocated buffer in
# filter_block.c) into that check and it cannot be suppressed separately with -fno-sanitize-recover.
SAN = ["-fsanitize=address,undefined", "-fno-sanitize=pointer-overflow", "-fno-sanitize-recover=undefined"]
FLAVOURS = {
    # name: (cc, cxx, cflags, ldflags)
    "asan": ("clang", "clang++", ["-O1", "-g", "-fno-omit-frame-pointer"] + SAN, SAN),
    "asan-nd": ("clang", "clang++", ["-O1", "-g", "-fno-omit-frame-pointer", "-DNDEBUG"] + SAN, SAN),
    "fuzz": ("clang", "clang++", ["-O1", "-g", "-fno-omit-frame-pointer", "-fsanitize=fuzzer-no-link"] + SAN, ["-fsanitize=fuzzer"] + SAN),
    "fuzz-nd": ("clang", "clang++", ["-O1", "-g", "-fno-omit-frame-pointer", "-DNDEBUG", "-fsanitize=fuzzer-no-link"] + SAN, ["-fsanitize=fuzzer"] + SAN),
    "tsan": ("clang", "clang++", ["-O1", "-g", "-fno-omit-frame-pointer", "-fsanitize=thread"], ["-fsanitize=thread"]),
    "plain": ("clang", "clang++", ["-O1", "-g"], []),
    "rel": ("gcc", "g++", ["-O2", "-g", "-DNDEBUG"], []),
    # source coverage of lcdb under the engines (driver/coverage.sh): a measuring aid for the generators, not a check
    "cov": ("clang", "clang++", ["-O0", "-g", "-fprofile-instr-generate", "-fcoverage-mapping"], ["-fprofile-instr-generate"]),
}

WRAP_IO = ["open", "close", "read", "pread", "write", "fsync", "fdatasync", "rename", "unlink", "link",
           "mkdir", "rmdir", "mmap", "select"]
WRAP_PT = ["pthread_mutex_init", "pthread_mutex_destroy", "pthread_mutex_lock", "pthread_mutex_unlock",
           "pthread_cond_init", "pthread_cond_destroy", "pthread_cond_wait", "pthread_cond_signal",
           "pthread_cond_broadcast", "pthread_create", "pthread_detach", "pthread_join"]


def sh(cmd, **kw):
    return subprocess.run(cmd, stdout=subprocess.PIPE, stderr=subprocess.STDOUT, text=True, **kw)


def file_hash(path):
    h = hashlib.sha1()
    with open(path, "rb") as f:
        h.update(f.read())
    return h.hexdigest()


def lcdb_sources():
    out = []
    for pat in ("src/*.c", "src/table/*.c", "src/util/*.c"):
        for p in sorted(glob.glob(os.path.join(REPO, pat))):
            if os.path.basename(p) in ("dbutil.c", "testutil.c"):
                continue
            out.append(p)
    return out


def lcdb_header_hash():
    h = hashlib.sha1()
    for pat in ("include/*.h", "src/*.h", "src/table/*.h", "src/util/*.h"):
        for p in sorted(glob.glob(os.path.join(REPO, pat))):
            h.update(p.encode())
            h.update(file_hash(p).encode())
    return h.hexdigest()


def vf_header_hash():
    h = hashlib.sha1()
    for p in sorted(glob.glob(os.path.join(VERIF, "vf", "*.h")) + glob.glob(os.path.join(VERIF, "vf", "ref", "*.h"))):
        h.update(p.encode())
        h.update(file_hash(p).encode())
    return h.hexdigest()


def _stamp_ok(stamp_path, stamp):
    try:
        with open(stamp_path) as f:
            return f.read() == stamp
    except OSError:
        return False


def _compile(job):
    cmd, obj, stamp_path, stamp = job
    r = sh(cmd)
    if r.returncode != 0:
        return (obj, r.stdout)
    with open(stamp_path, "w") as f:
        f.write(stamp)
    return (obj, None)


def run_jobs(jobs):
    if not jobs:
        return
    with ThreadPoolExecutor(max_workers=JOBS) as ex:
        for obj, err in ex.map(_compile, jobs):
            if err is not None:
                sys.stderr.write("BUILD ERROR for %s:\n%s\n" % (obj, err))
                raise SystemExit(2)


def build_lib(flavour):
    """Compile the 47 library translation units of $VERIF_REPO for a flavour; returns object list."""
    cc, cxx, cflags, _ = FLAVOURS[flavour]
    odir = os.path.join(BUILD, flavour, "lib")
    os.makedirs(odir, exist_ok=True)
    hh = lcdb_header_hash()
    jobs, objs = [], []
    for src in lcdb_sources():
        rel = os.path.relpath(src, os.path.join(REPO, "src")).replace("/", "_")
        obj = os.path.join(odir, rel[:-2] + ".o")
        stamp = "|".join([REPO, hh, file_hash(src), " ".join(cflags + LCDB_DEFS)])
        objs.append(obj)
        if os.path.exists(obj) and _stamp_ok(obj + ".stamp", stamp):
            continue
        cmd = [cc] + cflags + LCDB_DEFS + ["-I" + os.path.join(REPO, "include"), "-I" + os.path.join(REPO, "src"), "-c", src, "-o", obj]
        jobs.append((cmd, obj, obj + ".stamp", stamp))
    # objects of sources that disappeared
    keep = set(objs)
    for o in glob.glob(os.path.join(odir, "*.o")):
        if o not in keep:
            os.unlink(o)
    run_jobs(jobs)
    return objs


def build_cxx(flavour, sources, extra_flags=(), internal_headers=False, sanitize=True):
    """Compile harness C++ sources for a flavour. Returns object list."""
    cc, cxx, cflags, _ = FLAVOURS[flavour]
    odir = os.path.join(BUILD, flavour, "vf")
    os.makedirs(odir, exist_ok=True)
    hh = lcdb_header_hash() + vf_header_hash()
    jobs, objs = [], []
    for src in sources:
        path = os.path.join(VERIF, src)
        obj = os.path.join(odir, src.replace("/", "_").rsplit(".", 1)[0] + ".o")
        flags = list(cflags) + list(extra_flags) + ["-std=gnu++17", "-Wall", "-Wno-unused-function"] + LCDB_DEFS
        inc = ["-I" + os.path.join(REPO, "include"), "-I" + os.path.join(VERIF, "vf")]
        if internal_headers:
            inc.append("-I" + os.path.join(REPO, "src"))
        stamp = "|".join([REPO, hh, file_hash(path), " ".join(flags + inc)])
        objs.append(obj)
        if os.path.exists(obj) and _stamp_ok(obj + ".stamp", stamp):
            continue
        jobs.append(([cxx] + flags + inc + ["-c", path, "-o", obj], obj, obj + ".stamp", stamp))
    run_jobs(jobs)
    return objs


def build_gen():
    """The rapidcheck generator TU: independent of /repo, plain flags, built once."""
    odir = os.path.join(BUILD, "gen")
    os.makedirs(odir, exist_ok=True)
    src = os.path.join(VERIF, "vf", "gen.cc")
    obj = os.path.join(odir, "gen.o")
    stamp = file_hash(src)
    if not (os.path.exists(obj) and _stamp_ok(obj + ".stamp", stamp)):
        run_jobs([(["clang++", "-std=gnu++17", "-O1", "-g", "-c", src, "-o", obj], obj, obj + ".stamp", stamp)])
    return obj


def link(flavour, name, objs, wrap_io=True, wrap_pt=True, libs=("-lrapidcheck",)):
    cc, cxx, _, ldflags = FLAVOURS[flavour]
    bdir = os.path.join(BUILD, flavour, "bin")
    os.makedirs(bdir, exist_ok=True)
    exe = os.path.join(bdir, name)
    h = hashlib.sha1()
    for o in objs:
        h.update(o.encode())
        try:
            st = os.stat(o)
            h.update(("%d.%d" % (st.st_mtime_ns, st.st_size)).encode())
        except OSError:
            pass
    wraps = []
    if wrap_io:
        wraps += ["-Wl,--wrap=" + s for s in WRAP_IO]
    if wrap_pt:
        wraps += ["-Wl,--wrap=" + s for s in WRAP_PT]
    stamp = h.hexdigest() + " ".join(wraps) + " ".join(ldflags) + " ".join(libs)
    if os.path.exists(exe) and _stamp_ok(exe + ".stamp", stamp):
        return exe
    cmd = [cxx] + list(ldflags) + ["-g"] + objs + wraps + list(libs) + ["-lpthread", "-o", exe]
    r = sh(cmd)
    if r.returncode != 0:
        sys.stderr.write("LINK ERROR for %s:\n%s\n" % (exe, r.stdout))
        raise SystemExit(2)
    with open(exe + ".stamp", "w") as f:
        f.write(stamp)
    return exe


# engine name -> (harness sources, wrap_io, wrap_pt, needs gen, internal headers)
ENGINES = {
    "hist": (["vf/engines/hist.cc", "vf/vfsched.cc", "vf/vfio.cc"], True, True, True, False),
    "crash": (["vf/engines/crash.cc", "vf/vfsched.cc", "vf/vfio.cc"], True, True, True, False),
    "codec": (["vf/engines/codec.cc"], False, False, True, True),
    "fault": (["vf/engines/fault.cc", "vf/vfsched.cc", "vf/vfio.cc"], True, True, True, False),
    "conc": (["vf/engines/conc.cc", "vf/vfsched.cc", "vf/vfio.cc"], True, True, True, False),
    "race": (["vf/engines/race.cc", "vf/vfsched.cc", "vf/vfio.cc"], True, True, True, False),
    "corrupt": (["vf/engines/corrupt.cc", "vf/vfsched.cc", "vf/vfio.cc"], True, True, True, False),
}


def build_fuzz(flavour):
    """libFuzzer binary with all C18 targets (selected at run time by VF_FUZZ_TARGET)."""
    t0 = time.time()
    lib = build_lib(flavour)
    objs = build_cxx(flavour, ["vf/fuzz/fuzz.cc"], internal_headers=True)
    exe = link(flavour, "fuzz", objs + lib, wrap_io=False, wrap_pt=False, libs=())
    return exe, time.time() - t0


def build_engine(name, flavour):
    if name == "fuzz":
        return build_fuzz(flavour)
    srcs, wio, wpt, needs_gen, internal = ENGINES[name]
    t0 = time.time()
    lib = build_lib(flavour)
    objs = build_cxx(flavour, srcs, internal_headers=internal)
    libs = []
    if needs_gen:
        objs = objs + [build_gen()]
        libs.append("-lrapidcheck")
    exe = link(flavour, name, objs + lib, wrap_io=wio, wrap_pt=wpt, libs=tuple(libs))
    return exe, time.time() - t0
