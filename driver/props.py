"""Per-property check specifications and the generic worker-engine check."""
import glob, json, os, sys, time

import build, runner

VERIF = build.VERIF
BUDGET = float(os.environ.get("VERIF_BUDGET_S", "0") or 0)


def _budget(tier, quick_default, thorough_default):
    if tier == "thorough":
        return BUDGET if BUDGET > 0 else thorough_default
    return quick_default


def print_known(prop, counters):
    for k in runner.known_findings():
        if k.get("status", "open") != "open":
            continue
        seen = sum(v for kk, v in counters.items() if kk.endswith("known." + k["id"]))
        if k.get("property") == prop or seen:
            print("KNOWN-FINDING: property=%s %s [%s; observed %d time(s) in this run]" % (k.get("property"), k["what"], k["id"], seen))


def _tagnote(tag, prop):
    """Every oracle is armed in every history; one that belongs to another property's statement is named in the detail line."""
    return "" if not tag or tag == prop else " [oracle of %s]" % tag


def replay_committed(prop, exe, extra=()):
    """Committed replays are regression inputs: each must pass on a tree where the property holds."""
    viol = []
    n = 0
    if os.environ.get("VERIF_SKIP_COMMITTED_REPLAYS"):   # sensitivity experiments only: measures what generation alone finds
        return 0, []
    for path in sorted(glob.glob(os.path.join(runner.COMMITTED_REPLAYS, prop + "-*.case"))):
        n += 1
        oc = runner.run_replay(exe, path, extra)
        if oc[0] != "pass":
            ok = sum(1 for _ in range(2) if runner.same_failure(runner.run_replay(exe, path, extra), oc))
            if ok == 2:
                viol.append((path, oc))
    return n, viol


def _parts(spec):
    if "parts" in spec:
        return spec["parts"]
    return [spec]


def generic_run(prop, spec, tier, seed):
    """Runs every part (engine/kind) of a property's check, merges evidence, reports violations."""
    t0 = time.time()
    quick = tier != "thorough"
    violations, notes, samples = [], [], []
    counters_all, classes_all = {}, {}
    nt_total, evals, nrep_total, timeouts, build_total = 0, 0, 0, 0, 0.0
    rules, flavours = [], []
    seen_paths = set()
    parts = _parts(spec)
    for pi, part in enumerate(parts):
        flavour = part.get("flavour", "asan")
        with runner.BuildLock():
            exe, build_s = build.build_engine(part["engine"], flavour)
        build_total += build_s
        count = part["quick_count"] if quick else part.get("thorough_count", part["quick_count"] * 20)
        share = part.get("budget_share", 1.0 / len(parts))
        budget = _budget(tier, spec.get("quick_budget", 45), spec.get("thorough_budget", 600)) * share
        kind = part["kind"] + ("" if quick else "-thorough")
        extra = list(part.get("extra", []))
        # engines tag violations with the property they belong to, whatever check runs them: pass every open finding
        known = [k["id"] for k in runner.known_findings() if k.get("status", "open") == "open"]
        if known:
            extra += ["--known", ",".join(known)]
        pname = part.get("name", part["engine"])
        if pi == 0 or part["engine"] != parts[pi - 1]["engine"]:
            nrep, rviol = replay_committed(prop, exe, extra) if part.get("replays", True) else (0, [])
            nrep_total += nrep
            for path, oc in rviol:
                print("VIOLATION property=%s replay=%s" % (prop, path))
                print("  committed replay fails%s: %s" % (_tagnote(oc[1], prop), oc[2][:300]))
                violations.append(path)
        reports, failures, infos = runner.run_workers(
            exe, kind, seed + part.get("seed_offset", 0), count, budget, extra=extra, nworkers=part.get("workers"),
            maxsize=part.get("maxsize", 100) if quick else part.get("thorough_maxsize", 100))
        counters, fps, smp, nts = runner.merge_reports(reports)
        timeouts += infos.get("timeouts", 0)
        # a worker that had to be killed: load, or a call of lcdb that never returns?  The case it was running is replayed
        # alone with a generous limit; only a case that hangs alone, twice, is a stuck call (C09's statement).  Engines whose
        # single cases can legitimately run for minutes (crash-image exploration) are left as inconclusive.
        if part["engine"] in ("hist", "conc", "fault"):
            for text in infos.get("hung_cases", [])[:2]:
                tmpc = os.path.join(runner.SCRATCH, "lcdb-verif-hang.%d.case" % os.getpid())
                with open(tmpc, "w") as f:
                    f.write(text)
                r1 = runner.run_replay(exe, tmpc, extra, timeout=300)
                r2 = runner.run_replay(exe, tmpc, extra, timeout=300) if r1[0] == "timeout" else r1
                os.unlink(tmpc)
                if r1[0] == "timeout" and r2[0] == "timeout":
                    path = runner.save_replay(prop, text)
                    print("VIOLATION property=%s replay=%s" % (prop, path))
                    print("  hang%s: the case does not finish within 300 s when run alone (twice): a call never returns" % _tagnote("C09", prop))
                    violations.append(path)
                elif r2[0] not in ("pass", "timeout"):
                    failures.append({"worker": -1, "outcome": r2, "case_text": text, "log_tail": ""})   # fails alone: normal confirmation path
                else:
                    nts.append("a worker was killed at the wall limit; its case finishes when run alone (%s): load, not a hang" % r2[0])
        confirmed = 0
        for f in failures:
            oc = f["outcome"]
            if confirmed >= 3:
                # further failing workers almost always share the root cause; keep the run short
                counters["additional_failing_workers"] = counters.get("additional_failing_workers", 0) + 1
                continue
            if oc[0] in ("error",) and f.get("case_text") is None:
                print("HARNESS-ERROR %s" % oc[2][:500])
                violations.append("harness")
                continue
            if part.get("race") and oc[0] == "sanitizer":
                is_v, path, target, tag = runner.confirm_race(prop, exe, f, extra)
            else:
                is_v, path, target, tag = runner.confirm_and_report(prop, exe, f, extra, ddmin=part.get("ddmin", True))
            if not is_v:
                counters["unreproducible_failures"] = counters.get("unreproducible_failures", 0) + 1
                nts.append("unreproducible failure dropped: %s" % (oc[2][:200],))
                continue
            if path in seen_paths:
                continue
            seen_paths.add(path)
            confirmed += 1
            print("VIOLATION property=%s replay=%s" % (prop, path))
            print("  %s%s: %s" % (target[0], _tagnote(tag, prop), target[2][:400]))
            violations.append(path)
        prefix = (pname + ".") if len(parts) > 1 else ""
        for k, v in counters.items():
            if k.startswith("class."):
                classes_all[prefix + k[6:]] = classes_all.get(prefix + k[6:], 0) + v
            else:
                counters_all[prefix + k] = counters_all.get(prefix + k, 0) + v
        nt_total += len(fps.get(part["nt"], ()))
        ec = part.get("eval_counter", "cases")
        evals += int(sum(counters.get(k, 0) for k in (ec if isinstance(ec, (list, tuple)) else [ec])))
        samples += smp[:2]
        notes += nts
        rules.append((pname + ": " if len(parts) > 1 else "") + part["rule"])
        flavours.append(flavour)
    print_known(prop, counters_all)
    coverage = {
        "evaluations": int(evals),
        "distinct_nontrivial": int(nt_total),
        "rule": " || ".join(rules),
        "samples": samples[:4] if samples else ["(no case completed)"],
        "classification": classes_all,
        "counters": counters_all,
        "committed_replays_run": nrep_total,
        "workers": runner.JOBS,
        "worker_timeouts": timeouts,
        "build_s": round(build_total, 1),
        "flavour": ",".join(sorted(set(flavours))),
        "notes": notes[:20],
        "exhaustive": False,
    }
    if "traces_validated" in counters_all or any(k.endswith("traces_validated") for k in counters_all):
        coverage["traces_validated_against_impl"] = sum(v for k, v in counters_all.items() if k.endswith("traces_validated"))
    coverage.update(spec.get("coverage_extra", {}))
    wall = time.time() - t0
    runner.write_evidence(prop, tier, seed, spec["level"], coverage, spec["assumptions"], wall, len(violations))
    print("%s %s: %d evaluations, %d distinct non-trivial, %d violation(s), %.1fs" % (prop, tier, coverage["evaluations"], nt_total, len(violations), wall))
    return 1 if violations else 0


def replay_one(prop, spec, path):
    if "replay" in spec:
        return spec["replay"](prop, spec, path)
    part = _parts(spec)[0]
    text = open(path).read() if os.path.exists(path) else ""
    for cand in _parts(spec):
        if ("#engine=" + cand["engine"]) in text:
            part = cand
    flavour = part.get("flavour", "asan")
    with runner.BuildLock():
        exe, _ = build.build_engine(part["engine"], flavour)
    extra = list(part.get("extra", []))
    oc = runner.run_replay(exe, path, extra)
    if oc[0] == "pass":
        print("PASS %s" % path)
        return 0
    print("VIOLATION property=%s replay=%s" % (prop, path))
    print("  %s%s: %s" % (oc[0], _tagnote(oc[1], prop), oc[2][:600]))
    return 1


def setup():
    with runner.BuildLock():
        build.build_gen()
        done = set()
        build.build_engine("fuzz", "fuzz-nd")
        build.build_engine("fuzz", "fuzz")
        for sp in SPECS.values():
            for part in _parts(sp):
                key = (part["engine"], part.get("flavour", "asan"))
                if key not in done:
                    done.add(key)
                    build.build_engine(*key)
    print("setup ok")
    return 0


COMMON_ASSUME = [
    "lcdb objects are compiled unmodified from $VERIF_REPO with the pinned defines (-DLDB_PTHREAD -D_GNU_SOURCE), clang -O1, asserts on, ASan+UBSan",
    "the file system under the database directory is tmpfs (/dev/shm); fsync is a no-op there and is intercepted, not executed",
    "threads are serialised by the harness scheduler at lock/condvar/thread-creation/syscall boundaries (strategy from the case)",
    "the reference model is an ordered map under the case's comparator; reference table/log decoders are written from the format documents",
]

HIST_RULES = {
    "C01": "cases = rapidcheck-generated operation histories (config + skeleton + random ops) run against lcdb and the sorted-map model; "
           "non-trivial = at least one compared read targeted a key whose newest write was no longer in the active memtable "
           "(a flush, compaction or reopen happened after that write); distinct by hash of the case text",
    "C06": "same histories weighted towards snapshots; non-trivial = a snapshot read of a key overwritten/deleted after the snapshot, "
           "issued after a later compaction of some level; distinct by case hash",
    "C07": "same histories weighted towards iterator calls; non-trivial = a next/prev direction change while >=2 child sources "
           "(memtable, level-0 files, deeper levels) were non-empty, or a seek to a deleted key; distinct by case hash",
    "C13": "same histories weighted towards long-lived iterators, flushes, per-level compactions and reopen, with directory operations recorded; "
           "non-trivial = a table was unlinked while an iterator was alive, or the leak check ran after >=1 table deletion; distinct by case hash",
    "C14": "same histories weighted towards structural changes; after every flush/compaction/reopen the reported layout is parsed and every "
           "table is decoded with the reference reader; non-trivial = a checked layout with >=2 non-empty levels or >=2 files in a level >=1; "
           "distinct by layout shape hash (levels, file counts, bounds)",
}

SPECS = {}
# Semantic history checks run twice: with ASan+UBSan (memory errors join the oracle) and, for throughput, without
# sanitizers (page faults are ~10 us in this VM and ASan multiplies them; the plain build explores ~3x more cases).
for _p in ("C01", "C06", "C07", "C13", "C14"):
    _extra_parts = []
    if _p == "C13":
        _extra_parts = [{"name": "crash", "engine": "crash", "flavour": "plain", "kind": "C05", "nt": "C13.nt", "eval_counter": "images", "quick_count": 100000, "thorough_count": 10000000,
                         "budget_share": 0.3, "seed_offset": 4242,
                         "rule": "crash images (see C02/C05) with orphan compaction outputs, temporary files or two MANIFESTs, recovered by the real code: once ldb_open has returned the directory must hold only "
                                 "CURRENT, LOCK, LOG[.old], one MANIFEST, one log and the tables of the reported layout; non-trivial = image with an orphan table or a CURRENT switch in progress"}]
    _ec = "layout_checks" if _p == "C14" else "cases"
    SPECS[_p] = {
        "level": "exploration", "quick_budget": 50, "thorough_budget": 600, "assumptions": COMMON_ASSUME, "run": generic_run,
        "parts": [
            {"name": "asan", "engine": "hist", "flavour": "asan", "kind": _p, "nt": _p + ".nt", "rule": HIST_RULES[_p], "eval_counter": _ec,
             "quick_count": 100000, "thorough_count": 10000000, "budget_share": 0.4},
            {"name": "plain", "engine": "hist", "flavour": "plain", "kind": _p, "nt": _p + ".nt", "eval_counter": _ec,
             "rule": "same generator and oracles, lcdb built without sanitizers (clang -O1, asserts on) for ~3x the case rate; seeds differ from the asan part",
             "quick_count": 100000, "thorough_count": 10000000, "budget_share": 0.6, "extra": [], "seed_offset": 7777},
        ] + _extra_parts,
    }
    if _extra_parts:
        SPECS[_p]["parts"][0]["budget_share"] = 0.3
        SPECS[_p]["parts"][1]["budget_share"] = 0.4
        SPECS[_p]["quick_budget"] = 60

CRASH_ASSUME = COMMON_ASSUME + [
    "crash model exactly as stated in C02: per file a prefix of the written bytes no shorter than at its last fsync; directory operations persist in issue order at least up to the last fsync of any file or directory; O_TRUNC of an existing name is a directory operation",
    "LOG/LOG.old are written through stdio, are not intercepted and are absent from crash images",
    "every write of a recorded history carries two marker keys (first and last update of its batch) from which the surviving batch set is read",
]

CRASH_RULE_COMMON = ("cases = rapidcheck-generated write histories (sync/non-sync puts, deletes, batches, flush, per-level compaction, reopen, and blocks in which 2-3 client threads write concurrently so that group commit is in the trace) recorded at "
                     "system-call granularity on the deterministic scheduler; evaluations = (history, crash point, crash image) triples materialised and "
                     "reopened by the real code; images per crash point: minimal, maximal, directory-ahead, data-ahead, torn last write, sampled; ")
CRASH_RULES = {
    "C02": CRASH_RULE_COMMON + "non-trivial = image other than the maximal one with >=1 batch required to survive (sync-acknowledged, or its log already unlinked); distinct by (case, crash point, image) hash",
    "C03": CRASH_RULE_COMMON.replace("images per crash point: minimal, maximal, directory-ahead, data-ahead, torn last write, sampled; ", "only the byte-exact maximal (process-kill) image per kill point; ")
           + "non-trivial = kill point strictly inside a multi-system-call operation (write, flush, compaction, log switch, MANIFEST/CURRENT switch, recovery); distinct by (case, kill point)",
    "C04": CRASH_RULE_COMMON + "generator weighted to multi-update batches (2..400 updates, payloads spanning 32 KiB log blocks); non-trivial = image with a torn log tail taken while a multi-update or multi-fragment batch was in flight",
    "C05": CRASH_RULE_COMMON + "each image is recovered, read back, written to, closed and opened again; every 25th (thorough: 6th) image additionally has second-level crash points enumerated inside its recovery (up to 12 / 60 boundaries x 4 canonical images, counted as evaluations too); non-trivial = image with a torn log tail, a half-written MANIFEST, a CURRENT switch in progress, or an orphan table",
    "C17": CRASH_RULE_COMMON + "generator weighted to reopen (MANIFEST roll-over); non-trivial = image taken between creating the new MANIFEST and removing the old one (two MANIFESTs, a .dbtmp, or no CURRENT yet)",
}

for _p in ("C02", "C03", "C05"):
    SPECS[_p] = {
        "level": "fault_enumeration", "quick_budget": 55, "thorough_budget": 900, "assumptions": CRASH_ASSUME, "run": generic_run,
        "parts": [
            {"name": "asan", "engine": "crash", "flavour": "asan", "kind": _p, "nt": _p + ".nt", "eval_counter": ["images", "nested_images"], "rule": CRASH_RULES[_p],
             "quick_count": 100000, "thorough_count": 10000000, "budget_share": 0.4},
            {"name": "plain", "engine": "crash", "flavour": "plain", "kind": _p, "nt": _p + ".nt", "eval_counter": ["images", "nested_images"],
             "rule": "same generator, images and oracles with lcdb built without sanitizers (more images per second); seeds differ from the asan part",
             "quick_count": 100000, "thorough_count": 10000000, "budget_share": 0.6, "seed_offset": 7777},
        ],
    }

CODEC_ASSUME = [
    "lcdb objects compiled unmodified from $VERIF_REPO (pinned defines, clang -O1, asserts on, ASan+UBSan); internal headers included the way the repository's own tests do",
    "reference codecs in vf/ref/ref.h are written from the LevelDB format documents and share no code with lcdb",
    "log writer/reader are driven through their in-memory test fields (dst/src), table files live on tmpfs",
]

SPECS["C15"] = {
    "level": "exploration", "quick_budget": 55, "thorough_budget": 600, "assumptions": CODEC_ASSUME + COMMON_ASSUME, "run": generic_run,
    "parts": [
        {"name": "codec", "engine": "codec", "flavour": "asan", "kind": "C15", "nt": "C15.nt", "budget_share": 0.7,
         "eval_counter": ["log.roundtrips", "log.truncations", "log.alterations", "crc.checks"],
         "rule": "cases = rapidcheck-generated (record lengths around block/fragment boundaries and random up to 200 KiB (1 MiB thorough), optional prefix log for the reuse path, "
                 "truncation offsets, byte alterations: bit flips, 0x00/0xFF, multi-byte xor, zeroed 512 B sector) and CRC cases (length sweep x alignment, table-driven path then hardware path after ldb_crc32c_init); "
                 "oracle: bytes equal the reference encoder, both decoders return the records, a cut yields exactly the records wholly before it with no report, alterations yield a subsequence, later intact blocks are delivered and any loss is reported; "
                 "non-trivial = a log longer than one block / a truncation sweep / an alteration that changed a byte / a CRC sweep; distinct by case hash",
         "quick_count": 1500, "thorough_count": 1000000},
        {"name": "file", "engine": "hist", "flavour": "asan", "kind": "histC15f", "nt": "C15.nt", "eval_counter": "cases", "quick_count": 100000, "thorough_count": 10000000, "budget_share": 0.3, "seed_offset": 1515,
         "rule": "the same framing through the real file layer: write-heavy histories (values 0 B..70 KiB, multi-block batches) with frequent reopen, with and without log reuse (appends at arbitrary starting offsets), "
                 "while every intercepted read/pread/write may return a short count or EINTR (legal POSIX outcomes; vfio.h); oracle: everything written reads back identically after each recovery (model map); "
                 "non-trivial = a reopen that recovered a log under perturbed reads; distinct by case hash"},
    ],
}
SPECS["C16"] = {
    "engine": "codec", "flavour": "asan", "kind": "C16", "nt": "C16.nt", "level": "exploration",
    "rule": "cases = rapidcheck-generated tables (0..4000 entries quick / 50000 thorough; keys with shared prefixes, 0xFF runs, empty key, internal-key suffixes; values 0..160 KiB; block size, restart interval, compression, bloom bits, "
            "comparator, cache, mmap) built with ldb_tablegen and read back with ldb_table + the reference reader; Snappy round-trips and differential decode of damaged streams; separator/successor contract exhaustively over "
            "strings of length <=3 (quick) / <=4 (thorough) on {00,01,7f,fe,ff}; non-trivial = table with >=2 data blocks, a block stored compressed or a filter; Snappy input >= 64 bytes; distinct by content hash",
    "quick_count": 400, "thorough_count": 1000000, "quick_budget": 40, "thorough_budget": 600,
    "assumptions": CODEC_ASSUME, "run": generic_run,
}
SPECS["C17"] = {
    "level": "exploration", "quick_budget": 75, "thorough_budget": 900, "assumptions": CODEC_ASSUME + CRASH_ASSUME, "run": generic_run,
    "parts": [
        {"name": "codec", "engine": "codec", "flavour": "asan", "kind": "C17", "nt": "C17.nt", "eval_counter": ["edit.roundtrips", "varint.values"], "quick_count": 3000, "thorough_count": 1000000, "budget_share": 0.25,
         "rule": "version edits with every field present/absent, values at 2^(7k)+-1 and 2^64-1, levels 0..6, arbitrary keys >= 8 bytes, up to 300 (5000 thorough) files: export equals the reference encoding, reference decodes it, import(export(e)) == e, "
                 "permuted-field reference encodings import identically; varint32 exhaustively within +-1024 of every 2^(7k) (all 2^32 values in the thorough tier), varint64 around every 2^(7k); non-trivial = edit with >=1 file entry and a multi-byte varint, or a varint range"},
        {"name": "hist", "engine": "hist", "flavour": "asan", "kind": "histC17", "nt": "C17.nt", "eval_counter": "manifest_replays", "quick_count": 400, "thorough_count": 100000, "budget_share": 0.35,
         "rule": "real histories weighted to reopen: at every quiescent point the MANIFEST named by CURRENT is replayed by the reference decoder and must reproduce the reported file set (numbers, sizes, bounds), comparator name and counters; "
                 "non-trivial = MANIFEST with >=2 edits naming >=1 table; distinct by MANIFEST bytes"},
        {"name": "crash", "engine": "crash", "flavour": "asan", "kind": "C17", "nt": "C17.nt", "eval_counter": "images", "quick_count": 200, "thorough_count": 100000, "budget_share": 0.4,
         "rule": CRASH_RULES["C17"]},
    ],
}

SPECS["C12"] = {
    "level": "fault_enumeration", "quick_budget": 55, "thorough_budget": 900,
    "assumptions": COMMON_ASSUME + [
        "fault model: the k-th intercepted call (open, close, read, pread, write, fsync, fdatasync, rename, unlink, link, mkdir, mmap on paths/fds below the database directory) fails with ENOSPC/EIO/EMFILE/ENOENT, once or from there on, or as a short write followed by an error",
        "a write that returned an error is indeterminate (its batch may or may not be applied, atomically); reads may return an error status once a failure has been injected",
        "the process-kill image is the directory contents at the moment the fault is cleared (user-space buffers lost)",
    ],
    "run": generic_run,
    "parts": [
        {"name": "asan", "engine": "fault", "flavour": "asan", "kind": "C12", "nt": "C12.nt", "quick_count": 100000, "thorough_count": 10000000, "budget_share": 0.5,
         "rule": "cases = (generated history, failure site k, errno, one-shot/persistent/short-write): the history is first run fault-free to count the eligible intercepted calls N, then re-executed with the k-th call failing, "
                 "for every k when N <= 60 (400 thorough) and for a seeded sample otherwise; non-trivial = the injected call was reached and >=1 write was acknowledged in that run; distinct by (case, plan) hash"},
        {"name": "plain", "engine": "fault", "flavour": "plain", "kind": "C12", "nt": "C12.nt", "quick_count": 100000, "thorough_count": 10000000, "budget_share": 0.5, "seed_offset": 7777,
         "rule": "same with lcdb built without sanitizers (more sites per second)"},
    ],
}

CONC_ASSUME = COMMON_ASSUME + [
    "all threads of the process (client threads and lcdb's background thread) are serialised by the harness scheduler; preemption happens only at lock, condition-variable, thread-creation and intercepted system-call boundaries (the granularity C08 states); memory-model effects between two yield points are out of scope here (C10)",
    "operation stamps come from one logical clock incremented at invoke and return; a preemption between taking a stamp and entering lcdb only widens an operation's interval (sound)",
    "keys of the larger programs have a single writer thread and unique values, which is what makes the register checks exact; tiny programs share keys and get the complete linearizability search",
]

CONC_RULE = ("cases = (rapidcheck-generated program of 2..5 client threads (8 thorough): put/del/batch/get/snapshot multi-get/scan/flush/compact/property, optional setup that fills the write buffer or stacks level-0 files) x schedule "
             "(random, PCT with 1..3 change points, background-starved, background-eager; optional spurious wake-ups and arbitrary signal targets; several seeds per program; bounded-exhaustive depth-first enumeration with preemption bound 2 for 2-thread x <=2-op programs); ")
SPECS["C08"] = {
    "engine": "conc", "flavour": "asan", "kind": "C08", "nt": "C08.nt", "level": "exploration", "quick_count": 1000000, "thorough_count": 100000000,
    "quick_budget": 50, "thorough_budget": 900, "assumptions": CONC_ASSUME, "run": generic_run,
    "rule": CONC_RULE + "oracle: complete Wing-Gong linearizability search for histories of <=14 operations, register freshness/monotonicity, snapshot and scan views closed under each writer's program order, final state; "
            "non-trivial = a history with >=2 real-time-overlapping operations on one key, one of them a write; distinct by (program, choice sequence) hash",
}
SPECS["C09"] = {
    "engine": "conc", "flavour": "asan", "kind": "C09", "nt": "C09.nt", "level": "exploration", "quick_count": 1000000, "thorough_count": 100000000,
    "quick_budget": 50, "thorough_budget": 900, "assumptions": CONC_ASSUME + ["fairness is assumed only in the weak form that a runnable thread is eventually chosen; the per-call bound is 4,000,000 scheduler steps"], "run": generic_run,
    "rule": CONC_RULE + "generator biased to blocking paths (write buffer nearly full, large values forcing memtable switches, up to 11 level-0 files, flush/compaction issued by several threads, background-starved schedules, spurious wake-ups); "
            "oracle: no state with unfinished threads and no runnable thread, every call returns within its step bound, no thread left blocked after ldb_close; non-trivial = a run in which >=1 thread blocked in cond_wait and was later woken; distinct by (program, choice sequence) hash",
}
SPECS["C04"] = {
    "level": "exploration", "quick_budget": 70, "thorough_budget": 900, "assumptions": CRASH_ASSUME + CONC_ASSUME, "run": generic_run,
    "parts": [
        {"name": "crash", "engine": "crash", "flavour": "plain", "kind": "C04", "nt": "C04.nt", "eval_counter": "images", "quick_count": 100000, "thorough_count": 10000000, "budget_share": 0.5,
         "rule": CRASH_RULES["C04"]},
        {"name": "conc", "engine": "conc", "flavour": "asan", "kind": "C04c", "nt": "C04.nt", "quick_count": 1000000, "thorough_count": 100000000, "budget_share": 0.5,
         "rule": CONC_RULE + "generator weighted to batches that set a writer's whole key group to one fresh token and to snapshot multi-gets / scans of whole groups; a view showing two tokens of one batch, or a later write of a thread without its earlier ones, is a violation; "
                 "non-trivial = a multi-update batch overlapping a read of its keys in real time"},
    ],
}

_C20_CONC = {"name": "conc", "engine": "conc", "flavour": "asan", "kind": "C20c", "nt": "C20.nt", "quick_count": 1000000, "thorough_count": 100000000, "budget_share": 0.3,
             "rule": "concurrent part: generated programs in which writer threads issue single-token batches over their key groups while other threads call ldb_backup, under explored schedules; after the join every backup is opened as "
                     "an independent database and judged like a scan whose interval is the ldb_backup call (contains everything acknowledged before the call, nothing begun after it returned, whole batches in program order); "
                     "non-trivial = a backup whose interval overlaps a write"}
for _p, _rule in (("C19", "histories (C01 generator weighted to flushes, per-level manual compactions, held snapshots) interleaved with `repair v` operations: the database is closed, the durable contents are computed "
                          "independently (reference table reader over every surviving table, reference log+batch decoder over every surviving log, newest sequence per key wins), metadata is lost or damaged in one of 6 ways "
                          "(delete CURRENT / MANIFEST / both, truncate MANIFEST, CURRENT naming a missing file, intact), ldb_repair + ldb_open run, and every key is read by ldb_get and by scans in both directions; the history then "
                          "continues (new writes must win, new files must take numbers above everything present at repair time); non-trivial = a repaired state in which some user key had versions in >=2 surviving files"),
                  ("C20", "histories interleaved with lifecycle operations: backup (opened at once as an independent database, compared with the model, written to, re-compared at the end after further source writes), copy (refused while "
                          "open, byte-identical source and equal contents when closed), destroy (foreign files and a foreign sub-directory must survive byte-identical, every database file must go), lockprobe (second ldb_open from the same "
                          "process and from a forked child must fail, first handle keeps working), badopen (error_if_exists / comparator mismatch / missing without create must fail, leave all files byte-identical, and a correct open must "
                          "succeed afterwards); non-trivial = a backup taken with a non-empty write buffer and >=1 table, followed by source writes and a later re-check of the backup")):
    SPECS[_p] = {
        "level": "exploration", "quick_budget": 50, "thorough_budget": 600, "assumptions": COMMON_ASSUME, "run": generic_run,
        "parts": [
            {"name": "asan", "engine": "hist", "flavour": "asan", "kind": _p, "nt": _p + ".nt", "rule": _rule, "quick_count": 100000, "thorough_count": 10000000, "budget_share": 0.4,
             "eval_counter": "repairs" if _p == "C19" else "cases"},
            {"name": "plain", "engine": "hist", "flavour": "plain", "kind": _p, "nt": _p + ".nt", "rule": "same without sanitizers (higher case rate)", "quick_count": 100000, "thorough_count": 10000000,
             "eval_counter": "repairs" if _p == "C19" else "cases",
             "budget_share": 0.6, "seed_offset": 7777},
        ] + ([_C20_CONC] if _p == "C20" else []),
    }
    if _p == "C20":
        SPECS[_p]["parts"][0]["budget_share"] = 0.3
        SPECS[_p]["parts"][1]["budget_share"] = 0.4
        SPECS[_p]["quick_budget"] = 65
        SPECS[_p]["assumptions"] = COMMON_ASSUME

SPECS["C10"] = {
    "level": "exploration", "quick_budget": 60, "thorough_budget": 900,
    "assumptions": [
        "lcdb and the harness are compiled with -fsanitize=thread (clang 14); lcdb's atomics are __atomic builtins here, which ThreadSanitizer models with their stated memory order",
        "real OS threads, no harness scheduler; seeded sched_yield/spin delays are injected at the wrapped pthread and system-call sites",
        "dynamic detection sees only the access pairs that were executed; a second pass runs the same programs under AddressSanitizer",
        "each iterator is used by one thread; the database is closed after all client threads have been joined",
    ],
    "run": generic_run,
    "parts": [
        {"name": "tsan", "engine": "race", "flavour": "tsan", "kind": "C10", "nt": "C10.nt", "quick_count": 1000000, "thorough_count": 100000000, "budget_share": 0.7, "race": True, "ddmin": False,
         "rule": "cases = (generated program of 3..5 threads (8 thorough) x 10..40 operations each: put/del/batch/get/snapshot multi-get with held snapshots/iterator walks/flush/manual compaction/property/approximate-sizes/backup, "
                 "optional setup that fills the write buffer or stacks level-0 files) x 3 (6) delay seeds, on real threads under ThreadSanitizer; non-trivial = a run in which >=2 client calls were in flight at once and a flush, compaction or backup occurred; "
                 "distinct by (program, delay seed)"},
        {"name": "asan", "engine": "race", "flavour": "asan", "kind": "C10", "nt": "C10.nt", "quick_count": 1000000, "thorough_count": 100000000, "budget_share": 0.3, "race": True, "ddmin": False, "seed_offset": 99,
         "rule": "the same programs on real threads under AddressSanitizer + UBSan (use-after-free of retired memtables, versions, files)"},
    ],
}

SPECS["C11"] = {
    "level": "fault_enumeration", "quick_budget": 50, "thorough_budget": 900,
    "assumptions": COMMON_ASSUME + [
        "single-fault model: one alteration of one file of a cleanly closed database at a time (single-bit flip, byte set to 0x00/0xFF, truncation at the offset, zero-filled 512-byte sector); the file is restored before the next one",
        "the database is opened with paranoid_checks=1 and read with verify_checksums=1 through a fresh block cache and table cache after every alteration",
        "a scan that ends with a non-OK status is the 'reports an error' branch: its entries are then not judged (a merged scan legitimately shows older shadowed versions before it reaches the unreadable block)",
    ],
    "run": generic_run,
    "parts": [
        {"name": "plain", "engine": "corrupt", "flavour": "plain", "kind": "C11", "nt": "C11.nt", "quick_count": 1000000, "thorough_count": 100000000, "budget_share": 0.6,
         "rule": "cases = (generated small database: tables on >=2 levels with shadowed versions and tombstones across files, live log, multi-record MANIFEST; file; offset; alteration). Quick: every footer/index/metaindex/filter/trailer byte and block "
                 "head/restart bytes of every table plus a seeded sample of the rest, the first 200 bytes and a sample of log/MANIFEST/CURRENT; thorough: every byte x (8 bit flips, 0x00, 0xFF, truncation, sector zeroing) of files <= 40 KB. "
                 "All live and deleted keys are looked up and both scan directions run after each alteration; non-trivial = every evaluated alteration (all table bytes are read by the scans); distinct by (database, file, offset, alteration)"},
        {"name": "asan", "engine": "corrupt", "flavour": "asan", "kind": "C11", "nt": "C11.nt", "quick_count": 1000000, "thorough_count": 100000000, "budget_share": 0.4, "seed_offset": 31,
         "rule": "same under ASan+UBSan (a damaged length or offset must not become an out-of-bounds access)"},
    ],
}


# ---------------------------------------------------------------------------------------------- C18: libFuzzer
FUZZ_TARGETS = ["block", "filter", "snappy", "edit", "batch", "log", "table", "filename", "dbdir"]
FUZZ_ENV_ASAN = "allocator_may_return_null=1:max_allocation_size_mb=256:detect_leaks=0:quarantine_size_mb=8:malloc_context_size=8"


def _fuzz_one(exe, target, flavour, seconds, seed, workdir, use_seeds):
    import subprocess, shutil
    corpus = os.path.join(workdir, "%s-%s-%s" % (target, flavour, "seeded" if use_seeds else "empty"))
    os.makedirs(corpus, exist_ok=True)
    env = dict(os.environ)
    if flavour == "asserts":
        # open known finding manifest-contents-asserts: excluded by construction in the assertion build, exhibited by the
        # separate "asserts-manifest" campaign
        env["VF_FUZZ_NO_FRAMED_MANIFEST"] = "1"
    env["ASAN_OPTIONS"] = FUZZ_ENV_ASAN
    env["UBSAN_OPTIONS"] = "print_stacktrace=1:halt_on_error=1"
    env["VF_FUZZ_TARGET"] = target
    env["VF_FUZZ_STATS"] = corpus + ".stats"
    if use_seeds:
        env["VF_FUZZ_WRITE_SEEDS"] = corpus
        committed = os.path.join(VERIF, "corpus", "C18", target)
        if os.path.isdir(committed):
            for f in os.listdir(committed):
                shutil.copy(os.path.join(committed, f), corpus)
    max_len = 1 << 20 if target == "dbdir" else (1 << 17 if target == "table" else 1 << 16)
    cmd = [exe, "-max_total_time=%d" % int(seconds), "-seed=%d" % (seed or 1), "-timeout=10", "-rss_limit_mb=4096", "-malloc_limit_mb=2048",
           "-max_len=%d" % max_len, "-artifact_prefix=%s-" % corpus, "-print_final_stats=1",
           "-dict=%s" % os.path.join(VERIF, "corpus", "C18", "dict.txt"), corpus]
    return subprocess.Popen(cmd, stdout=open(corpus + ".log", "w"), stderr=subprocess.STDOUT, env=env), corpus


def _is_manifest_contents_assert(out):
    """Signature of the open known finding manifest-contents-asserts: an assert() abort (no sanitizer report) whose stack runs
    through ldb_open or ldb_repair, i.e. recovery of a MANIFEST or log.  The caller also requires the same input to pass on the NDEBUG build."""
    if "Assertion `" not in out or "failed." not in out:
        return False
    if "ERROR: AddressSanitizer" in out or "runtime error" in out or "SEMANTIC" in out:
        return False
    return " in ldb_open " in out or " in ldb_repair " in out


def fuzz_replay(exe, target, path, timeout=90):
    import subprocess
    env = dict(os.environ)
    env["ASAN_OPTIONS"] = FUZZ_ENV_ASAN
    env["UBSAN_OPTIONS"] = "print_stacktrace=1:halt_on_error=1"
    env["VF_FUZZ_TARGET"] = target
    try:
        r = subprocess.run([exe, "-timeout=60", "-rss_limit_mb=4096", path], stdout=subprocess.PIPE, stderr=subprocess.STDOUT, text=True, errors="replace", env=env, timeout=timeout)
        return r.returncode, r.stdout
    except subprocess.TimeoutExpired:
        return -999, "standalone replay did not return within %d s" % timeout


def fuzz_run(prop, spec, tier, seed):
    import shutil, tempfile, hashlib, subprocess
    t0 = time.time()
    quick = tier != "thorough"
    with runner.BuildLock():
        exe_nd, b1 = build.build_engine("fuzz", "fuzz-nd")
        exe_as, b2 = build.build_engine("fuzz", "fuzz")
    budget = _budget(tier, 50, 900)
    workdir = tempfile.mkdtemp(prefix="lcdb-verif-fuzz.", dir=runner.SCRATCH)
    violations, notes = [], []
    # committed crashing inputs are regression inputs
    nrep = 0
    for path in sorted(glob.glob(os.path.join(runner.COMMITTED_REPLAYS, "C18-*.bin"))):
        target = os.path.basename(path).split("-")[1]
        nrep += 1
        rc, out = fuzz_replay(exe_nd, target, path)
        if rc != 0:
            print("VIOLATION property=C18 replay=%s" % path)
            print("  committed input still fails: %s" % out.strip().splitlines()[-1][:300] if out.strip() else "")
            violations.append(path)
    # campaigns: per target {shipped semantics (NDEBUG), asserts on} x {seeded, empty corpus}; two waves to stay within 16 cores
    jobs = []
    for t in FUZZ_TARGETS:
        jobs.append((exe_nd, t, "nd", True))
        jobs.append((exe_nd, t, "nd", False))
        jobs.append((exe_as, t, "asserts", True))
    jobs.append((exe_as, "edit", "asserts-manifest", True))
    per_wave = runner.JOBS
    waves = [jobs[i:i + per_wave] for i in range(0, len(jobs), per_wave)]
    secs = max(5, budget / len(waves))
    total_execs, total_gate, distinct_gate = 0, 0, 0
    excluded_known, known_seen = 0, 0
    per_target = {}
    for wave in waves:
        procs = []
        for exe, t, fl, seeded in wave:
            p, corpus = _fuzz_one(exe, t, fl, secs, seed, workdir, seeded)
            procs.append((p, corpus, exe, t, fl))
        for p, corpus, exe, t, fl in procs:
            try:
                p.wait(timeout=secs + 120)
            except subprocess.TimeoutExpired:
                p.kill()
                p.wait()
                notes.append("%s/%s: campaign killed after exceeding its wall limit (inconclusive)" % (t, fl))
            try:
                st = json.load(open(corpus + ".stats"))
            except (OSError, ValueError):
                st = {"execs": 0, "passed_gate": 0, "distinct_passed_gate": 0}
            excluded_known += st.get("excluded_known", 0)
            total_execs += st["execs"]
            total_gate += st["passed_gate"]
            distinct_gate += st["distinct_passed_gate"]
            d = per_target.setdefault(t, {"execs": 0, "passed_gate": 0, "distinct_passed_gate": 0})
            for k in d:
                d[k] += st[k]
            for art in sorted(glob.glob(corpus + "-*")):
                base = os.path.basename(art)
                kind = base[len(os.path.basename(corpus)) + 1:].split("-")[0]
                if kind in ("crash", "leak"):
                    rc, out = fuzz_replay(exe, t, art)
                    if rc == 0:
                        notes.append("%s/%s: artifact %s does not reproduce standalone (dropped)" % (t, fl, kind))
                        continue
                    if fl.startswith("asserts") and _is_manifest_contents_assert(out) and fuzz_replay(exe_nd, t, art)[0] == 0 \
                            and any(k["id"] == "manifest-contents-asserts" and k.get("status", "open") == "open" for k in runner.known_findings()):
                        known_seen += 1
                        continue
                    h = hashlib.sha1(open(art, "rb").read()).hexdigest()[:12]
                    dst = os.path.join(runner.REPLAYS, "C18-%s-%s.bin" % (t, h))
                    os.makedirs(runner.REPLAYS, exist_ok=True)
                    shutil.copy(art, dst)
                    if dst not in violations:
                        lines = [l for l in out.splitlines() if "ERROR" in l or "runtime error" in l or "SEMANTIC" in l or "Assertion" in l]
                        print("VIOLATION property=C18 replay=%s" % dst)
                        print("  target %s (%s): %s" % (t, fl, (lines[0] if lines else out.strip()[-200:])[:300]))
                        violations.append(dst)
                elif kind == "timeout":
                    rc, out = fuzz_replay(exe, t, art, timeout=90)
                    if rc == -999:
                        h = hashlib.sha1(open(art, "rb").read()).hexdigest()[:12]
                        dst = os.path.join(runner.REPLAYS, "C18-%s-%s.bin" % (t, h))
                        shutil.copy(art, dst)
                        print("VIOLATION property=C18 replay=%s" % dst)
                        print("  target %s (%s): does not terminate within 90 s standalone" % (t, fl))
                        violations.append(dst)
                    else:
                        notes.append("%s/%s: a slow unit under load returned in time standalone (not a violation)" % (t, fl))
    samples = []
    for t in ("edit", "filename", "batch"):
        c = os.path.join(workdir, "%s-nd-seeded" % t)
        if os.path.isdir(c):
            fs = sorted(os.listdir(c))[:2]
            for f in fs:
                samples.append("%s: %s" % (t, open(os.path.join(c, f), "rb").read()[:60].hex()))
    shutil.rmtree(workdir, ignore_errors=True)
    print_known(prop, {"known.manifest-contents-asserts": known_seen})
    coverage = {
        "excluded_by_construction": {"framed_manifest_paths_skipped_in_assertion_build (known finding manifest-contents-asserts)": int(excluded_known)},
        "known_finding_observed": int(known_seen),
        "evaluations": int(total_execs),
        "distinct_nontrivial": int(distinct_gate),
        "rule": "coverage-guided libFuzzer campaigns, one per decoder entry point (block iterator with a derived call sequence, filter reader, Snappy decoder with differential reference decode, version-edit import, "
                "write-batch iterate/insert, log reader, table open+iterate+get+dump on an arbitrary file, file-name parser) and a whole-database target (a valid generated directory damaged at field level: overwrites, boundary "
                "integers, truncation, splices of fragments of other files, zero runs, varint continuation bits; then open / get / scan both ways / compact / write+flush / repair / dump); each target runs with the shipped NDEBUG "
                "semantics from a seeded and from an empty corpus, and once with assertions on; non-trivial = an input that passes the first validation gate of its decoder (counted inside the target, distinct by input hash, capped at 2M per process)",
        "samples": samples or ["(corpora are scratch; see corpus/C18 for committed seeds)"],
        "per_target": per_target,
        "passed_gate_total": int(total_gate),
        "campaign_seconds_each": round(secs, 1),
        "campaigns": len(jobs),
        "committed_replays_run": nrep,
        "notes": notes[:20],
        "exhaustive": False,
    }
    wall = time.time() - t0
    runner.write_evidence(prop, tier, seed, "exploration", coverage, spec["assumptions"], wall, len(violations))
    print("%s %s: %d executions, %d distinct inputs past a validation gate, %d violation(s), %.1fs" % (prop, tier, total_execs, distinct_gate, len(violations), wall))
    return 1 if violations else 0


def fuzz_replay_one(prop, spec, path):
    with runner.BuildLock():
        exe_nd, _ = build.build_engine("fuzz", "fuzz-nd")
    target = os.path.basename(path).split("-")[1] if os.path.basename(path).startswith("C18-") else os.environ.get("VF_FUZZ_TARGET", "block")
    rc, out = fuzz_replay(exe_nd, target, path)
    if rc == 0:
        print("PASS %s" % path)
        return 0
    print("VIOLATION property=C18 replay=%s" % path)
    print("  " + out.strip()[-400:])
    return 1


SPECS["C18"] = {
    "level": "exploration", "run": fuzz_run, "replay": fuzz_replay_one, "parts": [],
    "assumptions": [
        "clang 14 libFuzzer, ASan + UBSan with -fno-sanitize-recover (pointer-overflow check excluded: NULL+0 on an empty buffer is folded into it); lcdb compiled unmodified with -fsanitize=fuzzer-no-link",
        "ASAN_OPTIONS allocator_may_return_null=1:max_allocation_size_mb=256 so that a handle or length announcing gigabytes takes lcdb's own out-of-memory path instead of an ASan-internal slow path",
        "the NDEBUG build (shipped semantics) is primary; the assertion build is fuzzed too and an assertion reachable from file bytes is reported",
        "libFuzzer's -seed pins a campaign only approximately; the saved artifact is the reproducible unit; timeout artifacts count only if the input does not return within 90 s standalone",
        "leak reports are not part of this property and are disabled",
    ],
}
