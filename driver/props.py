"""Per-property check specifications and the generic worker-engine check."""
import glob, json, os, sys, time

import build, runner

VERIF = build.VERIF
BUDGET = float(os.environ.get("VERIF_BUDGET_S", "0") or 0)


def _budget(tier, quick_default, thorough_default):
    if tier == "thorough":
        return BUDGET if BUDGET > 0 else thorough_default
    return quick_default


def print_known(prop, counters):
    for k in runner.open_known(prop):
        seen = counters.get("known." + k["id"], 0)
        print("KNOWN-FINDING: property=%s %s [%s; observed %d time(s) in this run]" % (prop, k["what"], k["id"], seen))


def replay_committed(prop, exe, extra=()):
    """Committed replays are regression inputs: each must pass on a tree where the property holds."""
    viol = []
    n = 0
    for path in sorted(glob.glob(os.path.join(runner.COMMITTED_REPLAYS, prop + "-*.case"))):
        n += 1
        oc = runner.run_replay(exe, path, extra)
        if oc[0] != "pass":
            ok = sum(1 for _ in range(2) if runner.same_failure(runner.run_replay(exe, path, extra), oc))
            if ok == 2:
                viol.append((path, oc))
    return n, viol


def generic_run(prop, spec, tier, seed):
    t0 = time.time()
    flavour = spec.get("flavour", "asan")
    with runner.BuildLock():
        exe, build_s = build.build_engine(spec["engine"], flavour)
    quick = tier != "thorough"
    count = spec["quick_count"] if quick else spec.get("thorough_count", spec["quick_count"] * 20)
    budget = _budget(tier, spec.get("quick_budget", 45), spec.get("thorough_budget", 600))
    kind = spec["kind"] + ("" if quick else "-thorough")
    extra = list(spec.get("extra", []))
    known = [k["id"] for k in runner.open_known(prop)]
    if known:
        extra += ["--known", ",".join(known)]
    violations = []
    nrep, rviol = replay_committed(prop, exe, extra)
    for path, oc in rviol:
        print("VIOLATION property=%s replay=%s" % (oc[1] or prop, path))
        print("  committed replay fails: %s" % oc[2][:300])
        violations.append(path)
    reports, failures, infos = runner.run_workers(exe, kind, seed, count, budget, extra=extra,
                                                 maxsize=spec.get("maxsize", 100) if quick else spec.get("thorough_maxsize", 100))
    counters, fps, samples, notes = runner.merge_reports(reports)
    seen_paths = set()
    for f in failures:
        oc = f["outcome"]
        if oc[0] in ("error",) and f.get("case_text") is None:
            # engine could not run (usage / harness error): broken check, make it loud
            print("HARNESS-ERROR %s" % oc[2][:500])
            violations.append("harness")
            continue
        is_v, path, target, tag = runner.confirm_and_report(prop, exe, f, extra)
        if not is_v:
            counters["unreproducible_failures"] = counters.get("unreproducible_failures", 0) + 1
            notes.append("unreproducible failure dropped: %s" % (oc[2][:200],))
            continue
        if path in seen_paths:
            continue
        seen_paths.add(path)
        print("VIOLATION property=%s replay=%s" % (tag, path))
        print("  %s: %s" % (target[0], target[2][:400]))
        violations.append(path)
    print_known(prop, counters)
    nt = len(fps.get(spec["nt"], ()))
    classes = {k[6:]: v for k, v in counters.items() if k.startswith("class.")}
    coverage = {
        "evaluations": int(counters.get("cases", 0)),
        "distinct_nontrivial": int(nt),
        "rule": spec["rule"],
        "samples": samples[:3] if samples else ["(no case completed)"],
        "classification": classes,
        "counters": {k: v for k, v in counters.items() if not k.startswith("class.")},
        "committed_replays_run": nrep,
        "workers": runner.JOBS,
        "worker_timeouts": infos.get("timeouts", 0),
        "build_s": round(build_s, 1),
        "flavour": flavour,
        "notes": notes,
        "exhaustive": False,
    }
    coverage.update(spec.get("coverage_extra", {}))
    wall = time.time() - t0
    runner.write_evidence(prop, tier, seed, spec["level"], coverage, spec["assumptions"], wall, len(violations))
    print("%s %s: %d cases, %d distinct non-trivial, %d violation(s), %.1fs" % (prop, tier, coverage["evaluations"], nt, len(violations), wall))
    return 1 if violations else 0


def replay_one(prop, spec, path):
    flavour = spec.get("flavour", "asan")
    with runner.BuildLock():
        exe, _ = build.build_engine(spec["engine"], flavour)
    extra = list(spec.get("extra", []))
    oc = runner.run_replay(exe, path, extra)
    if oc[0] == "pass":
        print("PASS %s" % path)
        return 0
    print("VIOLATION property=%s replay=%s" % (oc[1] or prop, path))
    print("  %s: %s" % (oc[0], oc[2][:600]))
    return 1


def setup():
    with runner.BuildLock():
        build.build_gen()
        for eng in build.ENGINES:
            for fl in sorted(set(s.get("flavour", "asan") for s in SPECS.values() if s.get("engine") == eng)):
                build.build_engine(eng, fl)
    print("setup ok")
    return 0


COMMON_ASSUME = [
    "lcdb objects are compiled unmodified from $VERIF_REPO with the pinned defines (-DLDB_PTHREAD -D_GNU_SOURCE), clang -O1, asserts on, ASan+UBSan",
    "the file system under the database directory is tmpfs (/dev/shm); fsync is a no-op there and is intercepted, not executed",
    "threads are serialised by the harness scheduler at lock/condvar/thread-creation/syscall boundaries (strategy from the case)",
    "the reference model is an ordered map under the case's comparator; reference table/log decoders are written from the format documents",
]

HIST_RULES = {
    "C01": "cases = rapidcheck-generated operation histories (config + skeleton + random ops) run against lcdb and the sorted-map model; "
           "non-trivial = at least one compared read targeted a key whose newest write was no longer in the active memtable "
           "(a flush, compaction or reopen happened after that write); distinct by hash of the case text",
    "C06": "same histories weighted towards snapshots; non-trivial = a snapshot read of a key overwritten/deleted after the snapshot, "
           "issued after a later compaction of some level; distinct by case hash",
    "C07": "same histories weighted towards iterator calls; non-trivial = a next/prev direction change while >=2 child sources "
           "(memtable, level-0 files, deeper levels) were non-empty, or a seek to a deleted key; distinct by case hash",
    "C13": "same histories weighted towards long-lived iterators, flushes, per-level compactions and reopen, with directory operations recorded; "
           "non-trivial = a table was unlinked while an iterator was alive, or the leak check ran after >=1 table deletion; distinct by case hash",
    "C14": "same histories weighted towards structural changes; after every flush/compaction/reopen the reported layout is parsed and every "
           "table is decoded with the reference reader; non-trivial = a checked layout with >=2 non-empty levels or >=2 files in a level >=1; "
           "distinct by layout shape hash (levels, file counts, bounds)",
}

SPECS = {}
for _p, _qc in (("C01", 500), ("C06", 500), ("C07", 500), ("C13", 400), ("C14", 350)):
    SPECS[_p] = {
        "engine": "hist", "flavour": "asan", "kind": _p, "nt": _p + ".nt", "level": "exploration",
        "rule": HIST_RULES[_p], "quick_count": _qc, "thorough_count": 100000, "quick_budget": 45, "thorough_budget": 600,
        "assumptions": COMMON_ASSUME, "run": generic_run,
    }
