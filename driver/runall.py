#!/usr/bin/python3
"""Run every registered check's quick (or thorough) command sequentially; summary at the end."""
import json, os, subprocess, sys, time
VERIF = os.path.dirname(os.path.dirname(os.path.abspath(__file__)))
m = json.load(open(os.path.join(VERIF, "MANIFEST.json")))
tier = sys.argv[1] if len(sys.argv) > 1 else "quick"
only = sys.argv[2:]
bad = 0
for c in m["checks"]:
    if only and c["property_id"] not in only:
        continue
    cmd = c["quick_cmd"] if tier == "quick" else c["thorough_cmd"]
    t0 = time.time()
    r = subprocess.run(cmd, shell=True, cwd=VERIF, stdout=subprocess.PIPE, stderr=subprocess.STDOUT, text=True)
    last = [l for l in r.stdout.strip().splitlines() if l.strip()][-1:] or [""]
    viol = [l for l in r.stdout.splitlines() if l.startswith("VIOLATION")]
    print("%s rc=%d %.0fs %s" % (c["property_id"], r.returncode, time.time() - t0, last[0][:160]))
    for v in viol[:3]:
        print("   " + v[:200])
    if r.returncode != 0:
        bad += 1
    sys.stdout.flush()
print("checks with non-zero exit: %d" % bad)
