#!/bin/bash
# Take a sub-agent's deliverable (<src dir> with patch.diff, demo.c, README.md ...) into seeded/<SEEDID>, confirm it
# independently (driver/confirm_seed.sh) and run the listed checks against it (driver/mutate.py, serialised by a lock).
# usage: seed_round.sh <SEEDID> <src dir> <check id> [<check id> ...]   ; log in /dev/shm/seed-<SEEDID>.log
SID=$1; SRC=$2; shift 2
V=$(cd "$(dirname "$0")/.." && pwd)
L=/dev/shm/seed-$SID.log
mkdir -p $V/seeded/$SID
cp $SRC/patch.diff $SRC/demo.c $SRC/README.md $V/seeded/$SID/ 2>/dev/null
for f in demo.flags demo.buildtype; do [ -f $SRC/$f ] && cp $SRC/$f $V/seeded/$SID/; done
{
echo "== confirm"; $V/driver/confirm_seed.sh $SID $V/seeded/$SID
echo "== checks"; flock /dev/shm/seed-mutate.lock $V/driver/mutate.py $V/seeded/$SID/patch.diff "$@"
echo "== done"
} > $L 2>&1
