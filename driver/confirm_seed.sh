#!/bin/bash
# Independent confirmation of a sub-agent's seeded change in a fresh scratch worktree.
# usage: confirm_seed.sh <ID> <dir with patch.diff and demo.c> ; prints a summary, leaves nothing behind.
ID=$1; SRC=$2; WT=/tmp/cf-$ID-$$; TT=/tmp/cf-tt-$ID-$$
set -u
git -C /repo worktree add -f --detach $WT HEAD >/dev/null 2>&1 || { echo "worktree failed"; exit 2; }
mkdir -p $TT /tmp/agent-$ID
cd $WT
res="ID=$ID"
if git apply --check $SRC/patch.diff 2>/dev/null; then res="$res patch_applies=yes"; else res="$res patch_applies=NO"; fi
# original build + demo
cmake -G Ninja -B _build -S . -DCMAKE_BUILD_TYPE=RelWithDebInfo >/dev/null 2>&1 && cmake --build _build -j8 >/dev/null 2>&1 || res="$res orig_build=FAIL"
EXTRA=""; [ -f $SRC/demo.flags ] && EXTRA=$(cat $SRC/demo.flags)
LIB=$WT/_build/liblcdb.a
if [ -f $SRC/demo.buildtype ]; then
  # the demo needs a library built with another CMAKE_BUILD_TYPE (e.g. Debug for the env fault switches); the test suite below
  # still runs on the prescribed build
  BT=$(cat $SRC/demo.buildtype)
  cmake -G Ninja -B _build_demo -S . -DCMAKE_BUILD_TYPE=$BT >/dev/null 2>&1 && cmake --build _build_demo -j8 --target lcdb_static >/dev/null 2>&1 || res="$res demo_lib_build=FAIL"
  LIB=$WT/_build_demo/liblcdb.a
fi
DEMOFLAGS="-I$WT/include -I$WT/src $SRC/demo.c $LIB -lpthread -lm $EXTRA"
cc -O1 -g $DEMOFLAGS -o $TT/demo_orig 2>$TT/cc.log || res="$res demo_compile=FAIL"
mkdir -p $TT/scratch-orig $TT/scratch-mut
(cd $TT && TEST_TMPDIR=$TT timeout 600 ./demo_orig $TT/scratch-orig >$TT/demo_orig.out 2>&1); res="$res demo_on_original_rc=$?"
# changed build + tests + demo
git apply $SRC/patch.diff
cmake --build _build -j8 >/dev/null 2>&1 || res="$res mut_build=FAIL"
[ -f $SRC/demo.buildtype ] && { cmake --build _build_demo -j8 --target lcdb_static >/dev/null 2>&1 || res="$res mut_demo_lib_build=FAIL"; }
cc -O1 -g $DEMOFLAGS -o $TT/demo_mut 2>>$TT/cc.log
(cd $TT && TEST_TMPDIR=$TT timeout 600 ./demo_mut $TT/scratch-mut >$TT/demo_mut.out 2>&1); res="$res demo_on_changed_rc=$?"
TEST_TMPDIR=$TT ctest --test-dir _build -j4 --timeout 900 >$TT/ctest.out 2>&1
if ! grep -q "100% tests passed" $TT/ctest.out; then
  # the machine is shared with other builds: give failed tests one quiet re-run before believing them
  res="$res first_ctest=\"$(grep 'tests passed' $TT/ctest.out | head -1) $(grep -A3 'The following tests FAILED' $TT/ctest.out | tail -3 | tr '\n' ' ')\""
  for attempt in 1 2 3 4 5; do
    TEST_TMPDIR=$TT ctest --test-dir _build -j1 --rerun-failed --timeout 900 >$TT/ctest.out 2>&1
    grep -q "100% tests passed" $TT/ctest.out && break
    sleep 20
  done
fi
res="$res ctest=\"$(grep 'tests passed' $TT/ctest.out | head -1)\""
echo "$res"
echo "--- demo on changed (tail):"; tail -4 $TT/demo_mut.out
cd /
git -C /repo worktree remove --force $WT
rm -rf $TT /tmp/agent-$ID
