"""Worker orchestration, ddmin shrinking, replay confirmation, evidence files."""
import fcntl, glob, hashlib, json, os, re, shutil, signal, subprocess, sys, tempfile, time

import build

VERIF = build.VERIF
SCRATCH = os.environ.get("VERIF_SCRATCH", "/dev/shm")
JOBS = build.JOBS
EVIDENCE = os.environ.get("VERIF_EVIDENCE_DIR", os.path.join(VERIF, "evidence"))
REPLAYS = os.environ.get("VERIF_REPLAYS_DIR", os.path.join(VERIF, "replays"))
COMMITTED_REPLAYS = os.path.join(VERIF, "replays")

ENV = dict(os.environ)
ENV["ASAN_OPTIONS"] = ("detect_leaks=0:abort_on_error=0:allocator_may_return_null=1:max_allocation_size_mb=2048:handle_abort=1:"
                       "quarantine_size_mb=2:thread_local_quarantine_size_kb=64:allocator_release_to_os_interval_ms=-1:malloc_context_size=8")
ENV["UBSAN_OPTIONS"] = "print_stacktrace=1:halt_on_error=1"
ENV["TSAN_OPTIONS"] = "halt_on_error=1:exitcode=66:second_deadlock_stack=1"

FAIL_RE = re.compile(r"^FAIL property=(\S+)(?: op=(-?\d+))?(?: case=(\S+))?(?: sig=(\S+))? ?msg=(.*)$", re.M)


class BuildLock:
    def __enter__(self):
        os.makedirs(build.BUILD, exist_ok=True)
        self.f = open(os.path.join(build.BUILD, ".lock"), "w")
        fcntl.flock(self.f, fcntl.LOCK_EX)
        return self

    def __exit__(self, *a):
        fcntl.flock(self.f, fcntl.LOCK_UN)
        self.f.close()


def known_findings():
    p = os.path.join(VERIF, "known_findings.json")
    if not os.path.exists(p):
        return []
    with open(p) as f:
        return json.load(f).get("findings", [])


def open_known(prop):
    return [k for k in known_findings() if k.get("property") == prop and k.get("status", "open") == "open"]


def classify_outcome(rc, out):
    """Map a process outcome to (kind, property or None, message)."""
    m = FAIL_RE.search(out)
    if m:
        return ("oracle", m.group(1), m.group(5).strip(), m.group(4))
    if rc == 0:
        return ("pass", None, "", None)
    if "ERROR: AddressSanitizer" in out or "runtime error:" in out or "ERROR: ThreadSanitizer" in out or "WARNING: ThreadSanitizer" in out:
        first = [l for l in out.splitlines() if "Sanitizer" in l or "runtime error" in l]
        return ("sanitizer", None, first[0] if first else "sanitizer report", None)
    if rc == 41:
        return ("deadlock", "C09", "deadlock detected by the scheduler", None)
    if rc == 42:
        return ("steplimit", "C09", "step limit exceeded", None)
    if rc < 0 or rc in (134, 139, 136):
        tail = out.strip().splitlines()[-3:]
        return ("crash", None, "signal/abort rc=%d %s" % (rc, " | ".join(tail)), None)
    return ("error", None, "exit code %d: %s" % (rc, out.strip()[-300:]), None)


def run_replay(exe, path, extra=(), timeout=120):
    try:
        r = subprocess.run([exe, "--replay", path] + list(extra), stdout=subprocess.PIPE, stderr=subprocess.STDOUT,
                           text=True, errors="replace", timeout=timeout, env=ENV)
        return classify_outcome(r.returncode, r.stdout)
    except subprocess.TimeoutExpired:
        return ("timeout", None, "timeout after %ds" % timeout, None)


def same_failure(a, b):
    """Two outcomes are the same failure if kind-class and property tag agree."""
    if a[0] == "pass" or b[0] == "pass":
        return False
    ka = "oracle" if a[0] == "oracle" else a[0]
    kb = "oracle" if b[0] == "oracle" else b[0]
    return ka == kb and a[1] == b[1] and (a[3] == b[3])


def ddmin_lines(exe, text, target, extra=(), budget_s=120, keep_first=True):
    """Delta debugging over the lines of a case. target = outcome tuple to preserve."""
    lines = [l for l in text.splitlines() if l.strip()]
    head = []
    if keep_first and lines and lines[0].startswith("config"):
        head, lines = [lines[0]], lines[1:]
    t0 = time.time()
    tmp = tempfile.NamedTemporaryFile("w", suffix=".case", delete=False, dir=SCRATCH)
    tmp.close()
    tests = [0]

    def fails(cand):
        tests[0] += 1
        with open(tmp.name, "w") as f:
            f.write("\n".join(head + cand) + "\n")
        return same_failure(run_replay(exe, tmp.name, extra, timeout=60), target)

    n = 2
    while len(lines) >= 2 and time.time() - t0 < budget_s:
        chunk = max(1, len(lines) // n)
        reduced = False
        for i in range(0, len(lines), chunk):
            cand = lines[:i] + lines[i + chunk:]
            if cand != lines and fails(cand):
                lines = cand
                n = max(n - 1, 2)
                reduced = True
                break
            if time.time() - t0 > budget_s:
                break
        if not reduced:
            if chunk == 1:
                break
            n = min(n * 2, len(lines))
    # token-level pass inside batch lines
    for idx in range(len(lines)):
        if time.time() - t0 > budget_s:
            break
        if lines[idx].startswith("batch "):
            toks = lines[idx].split()
            j = 1
            while j < len(toks) and len(toks) > 2:
                cand_toks = toks[:j] + toks[j + 1:]
                cand = lines[:idx] + [" ".join(cand_toks)] + lines[idx + 1:]
                if fails(cand):
                    toks = cand_toks
                    lines = cand
                else:
                    j += 1
    os.unlink(tmp.name)
    return "\n".join(head + lines) + "\n", tests[0]


def cleanup_scratch(pids):
    for pid in pids:
        d = os.path.join(SCRATCH, "lcdb-verif.%d" % pid)
        if os.path.isdir(d):
            shutil.rmtree(d, ignore_errors=True)


def run_workers(exe, kind, seed, count, budget_s, nworkers=None, extra=(), maxsize=100, wall_limit=None):
    """Run nworkers engine processes; returns (reports, failures, infos)."""
    nworkers = nworkers or JOBS
    outdir = tempfile.mkdtemp(prefix="lcdb-verif-out.", dir=SCRATCH)
    procs = []
    for w in range(nworkers):
        cmd = [exe, "--kind", kind, "--seed", str(seed), "--count", str(count), "--worker", str(w), "--out", outdir,
               "--budget", str(budget_s), "--maxsize", str(maxsize)] + list(extra)
        logf = open(os.path.join(outdir, "w%d.log" % w), "w")
        p = subprocess.Popen(cmd, stdout=logf, stderr=subprocess.STDOUT, env=ENV)
        procs.append((w, p, logf))
    deadline = time.time() + (wall_limit or (budget_s * 2 + 120))
    failures, reports, infos = [], [], {"timeouts": 0}
    for w, p, logf in procs:
        try:
            p.wait(timeout=max(1, deadline - time.time()))
        except subprocess.TimeoutExpired:
            p.kill()
            p.wait()
            infos["timeouts"] += 1
            cp = os.path.join(outdir, "w%d.current.case" % w)
            if os.path.exists(cp):
                infos.setdefault("hung_cases", []).append(open(cp).read())
        logf.close()
        with open(os.path.join(outdir, "w%d.log" % w), errors="replace") as f:
            out = f.read()
        oc = classify_outcome(p.returncode, out)
        if oc[0] != "pass" and p.returncode != -9:
            casefile = None
            for cand in ("w%d.failing.case" % w, "failing.case", "w%d.current.case" % w):
                cp = os.path.join(outdir, cand)
                if os.path.exists(cp):
                    casefile = cp
                    break
            text = open(casefile).read() if casefile else None
            failures.append({"worker": w, "outcome": oc, "case_text": text, "log_tail": out[-3000:]})
        rp = os.path.join(outdir, "w%d.json" % w)
        if os.path.exists(rp):
            try:
                with open(rp) as f:
                    reports.append(json.load(f))
            except ValueError:
                pass
    cleanup_scratch([p.pid for _, p, _ in procs])
    shutil.rmtree(outdir, ignore_errors=True)
    return reports, failures, infos


def merge_reports(reports):
    counters, fps, samples, notes = {}, {}, [], []
    for r in reports:
        for k, v in r.get("counters", {}).items():
            counters[k] = counters.get(k, 0) + v
        for k, v in r.get("fingerprints", {}).items():
            fps.setdefault(k, set()).update(v)
        for s in r.get("samples", []):
            if len(samples) < 4:
                samples.append(s)
        for s in r.get("notes", []):
            if len(notes) < 20 and s not in notes:
                notes.append(s)
    return counters, fps, samples, notes


def save_replay(prop, text, suffix=".case"):
    os.makedirs(REPLAYS, exist_ok=True)
    h = hashlib.sha1(text.encode()).hexdigest()[:12]
    path = os.path.join(REPLAYS, "%s-%s%s" % (prop, h, suffix))
    with open(path, "w") as f:
        f.write(text)
    return path


def write_evidence(prop, tier, seed, level, coverage, assumptions, wall_s, violations):
    os.makedirs(EVIDENCE, exist_ok=True)
    ev = {
        "property_id": prop,
        "tier": tier,
        "seed": int(seed),
        "level": level,
        "coverage": coverage,
        "assumptions": assumptions,
        "wall_s": round(wall_s, 2),
        "violations": int(violations),
    }
    tmp = os.path.join(EVIDENCE, prop + ".json.tmp")
    with open(tmp, "w") as f:
        json.dump(ev, f, indent=1, sort_keys=True)
    os.replace(tmp, os.path.join(EVIDENCE, prop + ".json"))
    return ev


def confirm_race(prop, exe, failure, extra=(), attempts=6):
    """A sanitizer report from real-thread execution: timing dependent, so replay repeats the program with
    other injected delays. Reproduced -> the case is the replay file; otherwise the report itself is kept."""
    text = failure.get("case_text")
    oc = failure["outcome"]
    log = failure.get("log_tail", "")
    if text:
        tmp = os.path.join(SCRATCH, "lcdb-verif-confirm.%d.case" % os.getpid())
        with open(tmp, "w") as f:
            f.write(text)
        for _ in range(attempts):
            r = run_replay(exe, tmp, extra, timeout=300)
            if r[0] == "sanitizer":
                os.unlink(tmp)
                path = save_replay(prop, text)
                with open(path + ".report.txt", "w") as f:
                    f.write(log)
                return True, path, r, prop
        os.unlink(tmp)
    path = save_replay(prop, (text or "") + "\n# sanitizer report (not reproduced in %d replays):\n# " % attempts + log.replace("\n", "\n# "), ".report.case")
    return True, path, oc, prop


def confirm_and_report(prop, exe, failure, extra=(), ddmin=True):
    """Shrink, save, replay 3x. Returns (is_violation, replay_path, outcome)."""
    text = failure.get("case_text")
    oc = failure["outcome"]
    tag = oc[1] or prop
    if text is None:
        # no input to replay: report with the log as replay artefact
        path = save_replay(tag, failure.get("log_tail", ""), ".log")
        return True, path, oc, tag
    tmp = os.path.join(SCRATCH, "lcdb-verif-confirm.%d.case" % os.getpid())
    with open(tmp, "w") as f:
        f.write(text)
    first = run_replay(exe, tmp, extra)
    if first[0] == "pass":
        # not reproducible from its input: a harness/ordering artefact, never a violation
        os.unlink(tmp)
        return False, None, oc, tag
    target = first
    tag = target[1] or prop
    if ddmin:
        small, ntests = ddmin_lines(exe, text, target, extra)
    else:
        small = text
    with open(tmp, "w") as f:
        f.write(small)
    ok = 0
    for _ in range(3):
        if same_failure(run_replay(exe, tmp, extra), target):
            ok += 1
    os.unlink(tmp)
    if ok < 3:
        # flaky under replay: keep the unshrunk case and try once more
        with open(tmp, "w") as f:
            f.write(text)
        ok = sum(1 for _ in range(3) if same_failure(run_replay(exe, tmp, extra), target))
        os.unlink(tmp)
        if ok < 3:
            return False, None, target, tag
        small = text
    path = save_replay(tag, small)
    return True, path, target, tag
