#!/bin/bash
# Source coverage of lcdb under the engines: a measuring aid for the generators (which code do the generated cases reach?),
# not a check.  usage: driver/coverage.sh [seconds-per-engine-run]   Prints llvm-cov's per-file table; leaves nothing behind.
S=${1:-60}
cd "$(dirname "$0")/.."
for e in hist crash fault conc corrupt codec; do python3 -c "
import sys; sys.path.insert(0,'driver'); import build
build.build_engine('$e','cov')" >/dev/null || exit 2; done
W=$(mktemp -d /dev/shm/lcdb-verif-cov.XXXXXX)
K=$(python3 -c "
import json; print(','.join(k['id'] for k in json.load(open('known_findings.json'))['findings'] if k.get('status','open')=='open'))")
run() { LLVM_PROFILE_FILE=$W/$1-%p.profraw timeout $((S*6)) build/cov/bin/$2 --kind $3 --seed ${VERIF_SEED:-1} --count $4 --budget $S --known "$K" >/dev/null 2>&1; }
run h1 hist C01 400 & run h2 hist C07 300 & run h3 hist C13 300 & run h4 hist C14 300 & run h5 hist C19 200 & run h6 hist C20 200 & run h7 hist C06 200 & run h8 hist histC17 200 &
run c1 crash C02 60 & run c2 crash C05 60 & run f1 fault C12 20 & run n1 conc C08 400 & run n2 conc C09 300 & run n3 conc C20c 200 & run r1 corrupt C11 8 & run d1 codec C15 400 & run d2 codec C16 200 & run d3 codec C17 400 &
wait
llvm-profdata merge -sparse $W/*.profraw -o $W/all.profdata
OBJ=""; for e in crash fault conc corrupt codec; do OBJ="$OBJ -object build/cov/bin/$e"; done
llvm-cov report build/cov/bin/hist $OBJ -instr-profile=$W/all.profdata 2>/dev/null | grep -E "repo/src|^TOTAL|^Filename"
if [ -n "${COV_SHOW:-}" ]; then llvm-cov show build/cov/bin/hist $OBJ -instr-profile=$W/all.profdata ${VERIF_REPO:-/repo}/src/$COV_SHOW 2>/dev/null | awk -F'|' '$2 ~ /^ *0$/ {print $1 "|" $3}'; fi
if [ -n "${COV_KEEP:-}" ]; then echo "kept: $W"; else rm -rf $W; fi
