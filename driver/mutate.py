#!/usr/bin/python3
"""Sensitivity runs: apply a patch to a scratch copy of /repo, run checks against it, remove the copy.

  driver/mutate.py <patch.diff> <ID> [<ID> ...] [--tier quick] [--keep]
Prints one line per check: CAUGHT / MISSED with the time taken and the VIOLATION lines.
"""
import os, shutil, subprocess, sys, tempfile, time

VERIF = os.path.dirname(os.path.dirname(os.path.abspath(__file__)))


def main(argv):
    patch = os.path.abspath(argv[0])
    ids, tier, keep = [], "quick", False
    i = 1
    while i < len(argv):
        if argv[i] == "--tier":
            tier = argv[i + 1]; i += 2
        elif argv[i] == "--keep":
            keep = True; i += 1
        else:
            ids.append(argv[i]); i += 1
    scratch = tempfile.mkdtemp(prefix="lcdb-mut.", dir="/dev/shm")
    repo = os.path.join(scratch, "repo")
    os.makedirs(repo)
    for d in ("src", "include"):
        shutil.copytree(os.path.join("/repo", d), os.path.join(repo, d))
    r = subprocess.run(["patch", "-p1", "-s", "-d", repo, "-i", patch], stdout=subprocess.PIPE, stderr=subprocess.STDOUT, text=True)
    if r.returncode != 0:
        print("PATCH FAILED:\n" + r.stdout)
        shutil.rmtree(scratch, ignore_errors=True)
        return 2
    env = dict(os.environ)
    env["VERIF_REPO"] = repo
    env["VERIF_REPLAYS_DIR"] = os.path.join(scratch, "replays")
    env["VERIF_EVIDENCE_DIR"] = os.path.join(scratch, "evidence")
    rc_all = 0
    for pid in ids:
        t0 = time.time()
        r = subprocess.run([os.path.join(VERIF, "check"), pid, "--tier", tier], stdout=subprocess.PIPE, stderr=subprocess.STDOUT, text=True, env=env, cwd=VERIF)
        viol = [l for l in r.stdout.splitlines() if l.startswith("VIOLATION") or l.startswith("  ")]
        status = "CAUGHT" if r.returncode == 1 and any(l.startswith("VIOLATION") for l in viol) else ("MISSED" if r.returncode == 0 else "ERROR rc=%d" % r.returncode)
        print("%s %s by %s in %.0fs" % (os.path.basename(patch), status, pid, time.time() - t0))
        for l in viol[:6]:
            print("    " + l[:300])
        if status.startswith("ERROR"):
            print(r.stdout[-1500:])
        if status != "CAUGHT":
            rc_all = 1
        if keep:
            for f in os.listdir(env["VERIF_REPLAYS_DIR"]) if os.path.isdir(env["VERIF_REPLAYS_DIR"]) else []:
                print("    replay: " + open(os.path.join(env["VERIF_REPLAYS_DIR"], f)).read()[:1500].replace("\n", "\n      "))
    # remove the alternate object cache of this scratch repo
    import hashlib
    alt = os.path.join(VERIF, "build", "alt-" + hashlib.sha1(os.path.realpath(repo).encode()).hexdigest()[:10])
    shutil.rmtree(alt, ignore_errors=True)
    shutil.rmtree(scratch, ignore_errors=True)
    return rc_all


if __name__ == "__main__":
    sys.exit(main(sys.argv[1:]))
